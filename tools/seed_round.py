#!/usr/bin/env python3
"""tools/seed_round.py <suffix> <lens-file>: prepare a round of seeded-change tasks for fresh sub-agents.

For every property Cxx: a scratch worktree /tmp/wt/Cxx<suffix> of /repo's HEAD, an output directory /tmp/seed_out/Cxx<suffix>
and a prompt file /tmp/seed_out/prompt_Cxx<suffix>.txt holding only the property's text, the rules and the round's lens
(plus one-line summaries of the changes earlier rounds already produced for that property, so they are not repeated).
Nothing from the checks is given to the agents."""
import glob, json, os, subprocess, sys

HERE = os.path.dirname(os.path.dirname(os.path.abspath(__file__)))
suffix, lens = sys.argv[1], open(sys.argv[2]).read().strip()
os.makedirs("/tmp/seed_out", exist_ok=True)
os.makedirs("/tmp/wt", exist_ok=True)
for line in open(os.path.join(HERE, "properties.jsonl")):
    p = json.loads(line)
    pid = p["id"]
    name = pid + suffix
    wt, out = "/tmp/wt/" + name, "/tmp/seed_out/" + name
    if not os.path.exists(wt):
        subprocess.check_call(["git", "-C", "/repo", "worktree", "add", "-q", "--detach", wt, "HEAD"])
    os.makedirs(out, exist_ok=True)
    earlier = []
    for m in sorted(glob.glob(os.path.join(HERE, "seeded", pid + "?", "meta.json"))):
        try:
            earlier.append(" - " + json.load(open(m)).get("summary", "")[:260].replace("\n", " "))
        except Exception:
            pass
    text = """You are helping to evaluate a verification framework by writing a realistic, subtle bug ("seeded change") into a Python library.

The library is GeodePy (GeoscienceAustralia/GeodePy, a pure-Python geodesy toolkit). You have your OWN scratch git worktree of it at:

    {wt}

Work ONLY inside that directory (and write your deliverables to {out}). Do NOT touch /repo or /verif, do not look into /verif, and do not create files anywhere else. Run Python with /venv/bin/python (it has numpy, scipy, flask, pytest; there is no network). To import the worktree's code run with PYTHONPATH={wt} (and cd {wt}).

The semantic property your change must BREAK is:

---
{pid} — {title}

{statement}

Quantified over: {quant}

---

Your task: make ONE small source change to the library in the worktree (one or two sites, the kind of slip or "improvement" a real contributor could make) such that

 1. the library still imports and the existing test suite still passes, unedited:   cd {wt} && /venv/bin/python -m pytest -q -p no:cacheprovider --timeout=900     (75 tests; run it and confirm 75 passed)
 2. the property above is violated for SOME inputs, but NOT in ordinary everyday use: the violation must need something specific to manifest. A change that breaks nearly every call is NOT what is wanted. The effect must be clearly larger than the tolerance stated in the property (several times larger, for a non-negligible fraction of the special region), so that it is a real violation rather than a borderline one.
 3. you provide a demonstration: a small standalone script {out}/demo.py that (run as  cd <tree> && PYTHONPATH=<tree> /venv/bin/python {out}/demo.py <tree>  , using sys.argv[1] as the tree to put first on sys.path) exits 0 and prints PASS on the unmodified tree and exits 1 and prints FAIL on the modified tree. The script must check the property itself (with its own independent expected values or an invariant), not merely compare against hard-coded outputs of the old code if that can be avoided.

Deliverables (all under {out}):
  - patch.diff   : output of `git -C {wt} diff` (the change only; do not commit in the worktree)
  - demo.py      : the demonstration described above
  - meta.json    : {{"property": "{pid}", "summary": "<one sentence: what was changed>", "needs": "<what specific input/sequence/condition is needed for the violation to manifest>", "ran": ["<commands you ran and their outcome>"]}}

Changes that earlier rounds already produced for this property (do NOT repeat these or close variants of them):
{earlier}

LENS FOR THIS ROUND:
{lens}

Before finishing: verify yourself that (a) pytest passes 75 tests with the change, (b) demo.py FAILs with the change, (c) after `git -C {wt} diff > {out}/patch.diff; git -C {wt} apply -R {out}/patch.diff` demo.py PASSes, then `git -C {wt} apply {out}/patch.diff` to leave the change applied. NEVER use `git stash` (the stash is shared between worktrees and other agents are working concurrently). Report briefly what you changed and the evidence for (a)-(c).
""".format(wt=wt, out=out, pid=pid, title=p["title"], statement=p["statement"], quant=p["quantifier"]["text"],
           earlier="\n".join(earlier) or " (none)", lens=lens)
    with open("/tmp/seed_out/prompt_%s.txt" % name, "w") as fh:
        fh.write(text)
    print(name)
