#!/usr/bin/env python3
"""Regenerate MANIFEST.json from the check modules that exist under gvp/checks (keeps the file valid at all times)."""
import json
import os
import re
import sys

HERE = os.path.dirname(os.path.dirname(os.path.abspath(__file__)))

TECH = {
    "C01": "Hypothesis PBT vs independent exact-TM oracle (complex meridian-arc continuation)",
    "C02": "Hypothesis PBT: round trips, hemisphere-mirror metamorphic relation, differential vs Standalone/mga2gda.py",
    "C03": "Hypothesis PBT vs closed-form reference + round trip",
    "C04": "Hypothesis PBT vs independent exact geodesic oracle (Gauss-Legendre quadrature)",
    "C05": "Hypothesis PBT: arrival via exact direct oracle, swap / longitude-shift metamorphic relations",
    "C06": "Hypothesis PBT vs reference Helmert formula (float + Fraction), inverse round trip, covariance propagation reference",
    "C07": "Hypothesis PBT vs reference formula with rate-advanced parameters; complete enumeration of shipped sets",
    "C08": "complete enumeration of the arc-second lattice + Hypothesis PBT against exact rational angle semantics",
    "C09": "Hypothesis stateful (RuleBasedStateMachine) histories with snapshot / write-barrier / memo / fresh-process invariants, threaded re-runs, and harness-owned thread schedules (sys.monitoring line events: alternation and pre-emption-bounded enumeration)",
    "C10": "Hypothesis PBT vs analytic derivative of the exact-TM oracle; forward/inverse differential",
    "C11": "complete enumeration of the catalogue (names, pairs, 384 ITRF triples) + Hypothesis PBT of iers2trans",
    "C12": "Hypothesis PBT over recursive expression trees vs float evaluation with propagated tolerance",
    "C13": "Hypothesis PBT: round trip, differential vs stepwise recomposition, covariance reference",
    "C14": "Hypothesis PBT: definitional recomputation, direct/inverse round trip, line-scale-factor bounds vs exact-TM oracle",
    "C15": "Hypothesis PBT + stateful conversion chains, differential vs functional API",
    "C16": "Hypothesis PBT of algebraic invariants (orthonormality, eigenvalues) + complete enumeration of the t-table vs scipy",
    "C17": "Hypothesis PBT over generated NTv2 files with analytic polynomial fields (file-format fuzzing by construction)",
    "C18": "Hypothesis PBT over generated SINEX files vs independent writer/strict parser, substituted clock; model-based edit sequences on the library's own output",
    "C19": "Hypothesis PBT: inverse round trips, Pythagoras, proportionality, differential Ciddor vs closed form, complex-step dispersion identity",
    "C20": "Hypothesis PBT: differential of Flask test-client responses vs direct library calls",
}


def main():
    props = [json.loads(l) for l in open(os.path.join(HERE, "properties.jsonl"))]
    checks = []
    na = []
    for p in props:
        pid = p["id"]
        if os.path.exists(os.path.join(HERE, "gvp", "checks", pid + ".py")):
            checks.append({
                "property_id": pid,
                "quick_cmd": "./check %s quick" % pid,
                "thorough_cmd": "./check %s thorough" % pid,
                "evidence_file": "evidence/%s.json" % pid,
                "replay_cmd_template": "./check %s --replay {path}" % pid,
                "engine": "gvp",
                "level_claimed": {
                    "category": "exploration",
                    "text": ("Generated-input search (Hypothesis strategies built by construction over the property's "
                             "quantifier, edge pools, target()-guided) and complete enumeration of the finite sub-domains, "
                             "each case decided by an explicit oracle independent of the code under test. Establishes that no "
                             "violation exists among the cases explored (counts, class distribution and samples in the "
                             "evidence file), not absence of violations."),
                    "design_ref": "DESIGN.md section 5, %s" % pid,
                },
                "level_note": ("Trusted: CPython float arithmetic, numpy/scipy, Hypothesis, and the oracle stated in "
                               "DESIGN.md section 4 for this property (each oracle has a self-test that exits 2 on mismatch). "
                               "Runs the current working tree of /repo (VERIF_REPO overrides) in a fresh interpreter."),
                "technique": TECH[pid] + "; a slice of the same generated exploration is repeated in child interpreters started "
                             "in other environments (python -O, other hash seeds / time zones / locale, application-set numpy print "
                             "options and decimal context)",
            })
        else:
            na.append({"property_id": pid, "reason": "check not built yet in this revision (work in progress; "
                                                     "property-based testing applies, see DESIGN.md section 5)"})
    manifest = {
        "version": 1,
        "setup_cmd": "./setup.sh",
        "hooks": {
            "guard": "none (no source hooks: the only instrumentation, C09's write barrier, is a harness-side monkeypatch)",
            "enable": "nothing to enable; checks import /repo's working tree with PYTHONPATH semantics in a fresh interpreter",
            "baseline_off_cmd": "cd /repo && /venv/bin/python -m pytest -ra -q -p no:cacheprovider --timeout=900 --continue-on-collection-errors",
            "source_commits": [],
            "add_only": True,
        },
        "engines": [{
            "name": "gvp", "path": "gvp/",
            "serves_properties": [c["property_id"] for c in checks],
            "kind_free_text": "Hypothesis property-based testing + exhaustive enumeration harness with independent oracles",
        }],
        "checks": checks,
        "notes": ("VERIF_SEED (default 1) seeds every generator; VERIF_REPO (default /repo) selects the tree under test; "
                  "exit 0 held / 1 VIOLATION / 2 harness error. known_findings.json lists fixed and open findings."),
        "not_applicable": na,
    }
    with open(os.path.join(HERE, "MANIFEST.json"), "w") as fh:
        json.dump(manifest, fh, indent=1)
        fh.write("\n")
    print("MANIFEST.json: %d checks, %d not yet claimed" % (len(checks), len(na)))


if __name__ == "__main__":
    main()
