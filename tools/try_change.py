#!/usr/bin/env python3
"""tools/try_change.py <name> <tier> <ID[,ID..]> <file> <old> <new> [<file> <old> <new> ...]
Sensitivity probe: apply literal replacements in a scratch worktree of /repo's HEAD (outside /repo and /verif), run the
repository's own tests and the named checks against it, print what happened, keep the diff in seeded/_probes/<name>.diff,
remove the worktree."""
import os, subprocess, sys
HERE = os.path.dirname(os.path.dirname(os.path.abspath(__file__)))
name, tier, ids = sys.argv[1], sys.argv[2], sys.argv[3].split(",")
edits = sys.argv[4:]
wt = "/tmp/probe_%d" % os.getpid()
subprocess.check_call(["git", "-C", "/repo", "worktree", "add", "-q", "--detach", wt, "HEAD"])
try:
    for i in range(0, len(edits), 3):
        f, old, new = edits[i:i + 3]
        p = os.path.join(wt, f)
        s = open(p).read()
        if s.count(old) < 1:
            print("PROBE %s: text not found in %s: %r" % (name, f, old[:60])); sys.exit(3)
        open(p, "w").write(s.replace(old, new))
    diff = subprocess.check_output(["git", "-C", wt, "diff"]).decode()
    os.makedirs(os.path.join(HERE, "seeded", "_probes"), exist_ok=True)
    open(os.path.join(HERE, "seeded", "_probes", name + ".diff"), "w").write(diff)
    t = subprocess.run(["/venv/bin/python", "-m", "pytest", "-q", "-p", "no:cacheprovider", "--timeout=900"], cwd=wt,
                       stdout=subprocess.PIPE, stderr=subprocess.STDOUT).stdout.decode().strip().splitlines()[-1]
    print("PROBE %s: repo tests: %s" % (name, t))
    for ID in ids:
        r = subprocess.run([os.path.join(HERE, "check"), ID, tier], cwd=HERE, env=dict(os.environ, VERIF_REPO=wt),
                           stdout=subprocess.PIPE, stderr=subprocess.STDOUT)
        out = r.stdout.decode().splitlines()
        what = [l.strip()[:160] for l in out if l.startswith("  ") and ":" in l and not l.startswith("   ")][:3]
        print("PROBE %s: %s %s exit=%d %s" % (name, ID, tier, r.returncode, " | ".join(what)))
finally:
    subprocess.call(["git", "-C", "/repo", "worktree", "remove", "--force", wt])
