#!/bin/sh
# tools/process_seeds.sh <name> [<name> ...]: confirm each seeded change delivered under /tmp/seed_out/<name> (tools/confirm_seed.sh),
# then run its property's quick check against it (tools/mutant.sh); one summary line per name in /tmp/seed_out/results.txt
cd "$(dirname "$0")/.." || exit 2
for NAME in "$@"; do
    ID=$(echo $NAME | cut -c1-3)
    c=$(tools/confirm_seed.sh $NAME /tmp/seed_out/$NAME 2>&1 | tail -1)
    case "$c" in
        *CONFIRMED*" -> "*) r=$(tools/mutant.sh seeded/$NAME/patch.diff quick $ID 2>&1 | grep -v conda | tail -1) ;;
        *) r="(not run)" ;;
    esac
    echo "$NAME | $c | $r" >> /tmp/seed_out/results.txt
done
