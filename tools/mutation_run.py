#!/usr/bin/env python3
"""tools/mutation_run.py <repo-relative file> <max mutants> <ID> [<ID> ...]

Classic mutation testing of the checks (a sensitivity measure, complementing the hand-made seeded changes): syntactic mutants of
one source file of the code under test are generated from its AST (arithmetic operator swaps, comparison swaps, numeric constants
nudged, sin <-> cos, and <-> or, a unary minus dropped, two adjacent positional call arguments exchanged), a deterministic sample
of them is applied one at a time to a scratch worktree of /repo's HEAD (outside /repo and /verif), and the named checks' quick
tiers are run against it until one reports a violation.  For every mutant no check catches, the repository's own test suite is
run as well (does it at least fail there?).  One JSON line per mutant is appended to seeded/_mutation/<file>.jsonl.

Nothing is written to /repo.  Survivors need reading: many are equivalent (dead code, error messages, validation that no
property claims); the rest are what the checks miss."""
import ast, copy, json, os, random, subprocess, sys

HERE = os.path.dirname(os.path.dirname(os.path.abspath(__file__)))
rel, nmax, ids = sys.argv[1], int(sys.argv[2]), sys.argv[3:]
only_funcs = os.environ.get("MUT_FUNCS")
only_funcs = set(only_funcs.split(",")) if only_funcs else None
seed = int(os.environ.get("MUT_SEED", "1"))
WT = "/tmp/mutw_%d" % os.getpid()
subprocess.check_call(["git", "-C", "/repo", "worktree", "add", "-q", "--detach", WT, "HEAD"])
path = os.path.join(WT, rel)
src = open(path).read()
tree = ast.parse(src)

SWAP_BIN = {ast.Add: ast.Sub, ast.Sub: ast.Add, ast.Mult: ast.Div, ast.Div: ast.Mult}
SWAP_CMP = {ast.Lt: ast.LtE, ast.LtE: ast.Lt, ast.Gt: ast.GtE, ast.GtE: ast.Gt, ast.Eq: ast.NotEq, ast.NotEq: ast.Eq}
SWAP_FN = {"sin": "cos", "cos": "sin", "floor": "ceil", "ceil": "floor", "atan2": "atan2_swapped", "radians": "degrees", "degrees": "radians",
           "min": "max", "max": "min"}


def candidates(tree):
    """[(function name, walk index, kind)] for every mutable node inside a function body (raise statements and docstrings excluded)."""
    out = []
    idx = [0]

    def visit(node, fn, in_raise):
        i = idx[0]
        idx[0] += 1
        if isinstance(node, (ast.FunctionDef, ast.AsyncFunctionDef)):
            fn = node.name
        if isinstance(node, ast.Raise):
            in_raise = True
        if fn is not None and not in_raise and (only_funcs is None or fn in only_funcs):
            if isinstance(node, ast.BinOp) and type(node.op) in SWAP_BIN:
                out.append((fn, i, "binop"))
            elif isinstance(node, ast.Compare) and len(node.ops) == 1 and type(node.ops[0]) in SWAP_CMP:
                out.append((fn, i, "cmp"))
            elif isinstance(node, ast.Constant) and isinstance(node.value, (int, float)) and not isinstance(node.value, bool):
                out.append((fn, i, "const"))
            elif isinstance(node, ast.Call) and isinstance(node.func, ast.Name) and node.func.id in SWAP_FN:
                out.append((fn, i, "fn"))
            elif isinstance(node, ast.BoolOp):
                out.append((fn, i, "bool"))
            elif isinstance(node, ast.UnaryOp) and isinstance(node.op, ast.USub) and not isinstance(node.operand, ast.Constant):
                out.append((fn, i, "neg"))
            elif isinstance(node, ast.Call) and len(node.args) >= 2 and not any(isinstance(a, ast.Starred) for a in node.args):
                out.append((fn, i, "args"))
        for child in ast.iter_child_nodes(node):
            visit(child, fn, in_raise)
    visit(tree, None, False)
    return out


def apply(tree, target, kind, rnd):
    t = copy.deepcopy(tree)
    idx = [0]
    done = []

    def visit(node):
        i = idx[0]
        idx[0] += 1
        if i == target:
            before = ast.unparse(node)
            if kind == "binop":
                node.op = SWAP_BIN[type(node.op)]()
            elif kind == "cmp":
                node.ops = [SWAP_CMP[type(node.ops[0])]()]
            elif kind == "const":
                v = node.value
                node.value = (v + 1) if isinstance(v, int) else (v * 1.001 if v != 0 else 1e-6)
            elif kind == "fn":
                if node.func.id == "atan2":
                    node.args = [node.args[1], node.args[0]]
                else:
                    node.func.id = SWAP_FN[node.func.id]
            elif kind == "bool":
                node.op = ast.Or() if isinstance(node.op, ast.And) else ast.And()
            elif kind == "neg":
                done.append(("neg", before, ast.unparse(node.operand), getattr(node, "lineno", 0)))
                return node.operand
            elif kind == "args":
                k = rnd.randrange(len(node.args) - 1)
                node.args[k], node.args[k + 1] = node.args[k + 1], node.args[k]
            done.append((kind, before, ast.unparse(node), getattr(node, "lineno", 0)))
            return node
        for field, value in ast.iter_fields(node):
            if isinstance(value, list):
                for k, v in enumerate(value):
                    if isinstance(v, ast.AST):
                        value[k] = visit(v)
            elif isinstance(value, ast.AST):
                setattr(node, field, visit(value))
        return node
    # (iter_child_nodes order == iter_fields order, so the indices agree with candidates())
    visit(t)
    return t, (done[0] if done else None)


cands = candidates(tree)
rnd = random.Random(seed)
rnd.shuffle(cands)
outdir = os.path.join(HERE, "seeded", "_mutation")
os.makedirs(outdir, exist_ok=True)
outfile = os.path.join(outdir, rel.replace("/", "_") + ".jsonl")
n = 0
try:
    for fn, i, kind in cands:
        if n >= nmax:
            break
        t, info = apply(tree, i, kind, rnd)
        if info is None or info[1] == info[2]:
            continue
        try:
            new_src = ast.unparse(t)
            compile(new_src, path, "exec")
        except Exception:
            continue
        n += 1
        open(path, "w").write(new_src)
        rec = {"file": rel, "function": fn, "line": info[3], "operator": info[0], "before": info[1][:160], "after": info[2][:160]}
        caught = None
        for cid in ids:
            p = subprocess.run([os.path.join(HERE, "check"), cid, "quick"], env=dict(os.environ, VERIF_REPO=WT), capture_output=True, text=True)
            if p.returncode == 1:
                subs = sorted({l.strip().split(":")[0] for l in p.stdout.split("\n") if l.startswith("  ") and ":" in l and not l.startswith("   ")})
                caught = {"check": cid, "subchecks": subs[:6]}
                break
            if p.returncode not in (0, 1):
                caught = {"check": cid, "harness_error": True, "tail": p.stdout[-300:]}
                break
        rec["caught"] = caught
        if caught is None:
            p = subprocess.run(["/venv/bin/python", "-m", "pytest", "-q", "-x", "-p", "no:cacheprovider", "--timeout=900"], cwd=WT,
                               capture_output=True, text=True)
            rec["repo_suite"] = p.stdout.strip().split("\n")[-1][:80]
        with open(outfile, "a") as fh:
            fh.write(json.dumps(rec) + "\n")
        print("%-9s %s:%d %-6s %s -> %s   %s" % ("caught" if caught and not caught.get("harness_error") else ("HARNESS" if caught else "SURVIVED"),
                                               fn, info[3], info[0], info[1][:50], info[2][:50],
                                               (caught or {}).get("check", rec.get("repo_suite", ""))), flush=True)
        open(path, "w").write(src)
finally:
    subprocess.call(["git", "-C", "/repo", "worktree", "remove", "--force", WT])
