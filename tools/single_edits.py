#!/usr/bin/env python3
"""tools/single_edits.py <name> [<name> ...]: the benign half of a "cooperating sites" seeded change.

A round-12 seeded change consists of two edits that are each behaviour-preserving alone (their authors demonstrated it) and
break the property only together.  Each single edit is therefore a *benign refactoring* written without knowledge of the
checks: the property's check must stay quiet on it.  For every name the patch seeded/<name>/patch.diff is split into its two
edits (the author's own edit*.diff files if delivered under /tmp/seed_out/<name>, else per file, else per hunk), each is applied
alone to a scratch worktree of /repo's HEAD (outside /repo and /verif), the property's quick check is run against it and the
outcome is recorded in seeded/<name>/single_edits.json (and the two patches as seeded/<name>/edit1.diff, edit2.diff).
Exit status 1 if any single edit makes a check alarm (= over-reach of the check, to be analysed)."""
import glob, json, os, re, subprocess, sys

HERE = os.path.dirname(os.path.dirname(os.path.abspath(__file__)))


def split(patch):
    """-> list of single-edit patches (text)."""
    files = re.split(r"(?m)^(?=diff --git )", patch)
    files = [f for f in files if f.strip()]
    if len(files) == 2:
        return files
    if len(files) == 1:
        m = re.search(r"(?m)^@@", files[0])
        head = files[0][:m.start()]
        hunks = re.split(r"(?m)^(?=@@ )", files[0][m.start():])
        hunks = [h for h in hunks if h.strip()]
        if len(hunks) == 2:
            return [head + hunks[0], head + hunks[1]]
    return None


bad = 0
for name in sys.argv[1:]:
    pid = name[:3]
    d = os.path.join(HERE, "seeded", name)
    own = sorted(glob.glob("/tmp/seed_out/%s/edit*.diff" % name))
    if len(own) == 2:
        parts = [open(p).read() for p in own]
        how = "author's single-edit patches"
    else:
        parts = split(open(os.path.join(d, "patch.diff")).read())
        how = "patch.diff split per file / per hunk"
    if not parts:
        print("%s: cannot be split into two edits automatically" % name)
        continue
    out = {"how": how, "edits": []}
    for k, text in enumerate(parts, 1):
        path = os.path.join(d, "edit%d.diff" % k)
        with open(path, "w") as fh:
            fh.write(text)
        wt = "/tmp/single_%d" % os.getpid()
        subprocess.check_call(["git", "-C", "/repo", "worktree", "add", "-q", "--detach", wt, "HEAD"])
        try:
            ok = subprocess.call(["git", "-C", wt, "apply", "--recount", path]) == 0 or \
                subprocess.call(["git", "-C", wt, "apply", "--recount", "--3way", path]) == 0
            if not ok:
                out["edits"].append({"edit": k, "status": "does not apply alone"})
                print("%s edit %d: does not apply alone" % (name, k))
                continue
            p = subprocess.run([os.path.join(HERE, "check"), pid, "quick"], env=dict(os.environ, VERIF_REPO=wt), capture_output=True, text=True)
            lines = [l.strip() for l in p.stdout.split("\n") if l.startswith("  ") and ":" in l and not l.startswith("   ")]
            out["edits"].append({"edit": k, "check": pid + " quick", "exit": p.returncode, "alarms": lines[:4]})
            print("%s edit %d: %s quick exit=%d %s" % (name, k, pid, p.returncode, "; ".join(lines[:2])[:240]))
            if p.returncode != 0:
                bad += 1
        finally:
            subprocess.call(["git", "-C", "/repo", "worktree", "remove", "--force", wt])
    with open(os.path.join(d, "single_edits.json"), "w") as fh:
        json.dump(out, fh, indent=1)
sys.exit(1 if bad else 0)
