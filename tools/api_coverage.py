#!/usr/bin/env python3
"""tools/api_coverage.py: which functions / methods of the code under test do the checks enter?

Runs every check's quick tier with GVP_CALLTRACE set (a profile hook inside the harness' worker processes; nothing in /repo is
touched), then lists, per source file, the functions defined there (ast) that no check entered.  A diagnostic for the harness:
an entry point of a property's scope that is never entered is a coverage gap of the generators, whatever the assertions say."""
import ast, json, os, subprocess, sys, tempfile

HERE = os.path.dirname(os.path.dirname(os.path.abspath(__file__)))
REPO = os.environ.get("VERIF_REPO", "/repo")
out = tempfile.mktemp(prefix="calltrace_", suffix=".jsonl")
ids = sys.argv[1:] or ["C%02d" % i for i in range(1, 21)]
for i in ids:
    subprocess.call([os.path.join(HERE, "check"), i, "quick"], env=dict(os.environ, GVP_CALLTRACE=out),
                    stdout=subprocess.DEVNULL, stderr=subprocess.DEVNULL)
called = {}
for line in open(out):
    d = json.loads(line)
    for c in d["called"]:
        f, name, ln = c.rsplit(":", 2)
        called.setdefault((f, name, int(ln)), set()).add(d["property"])
os.remove(out)
for rel in sorted(set(f for f, _, _ in called) | {"geodepy/" + n for n in os.listdir(os.path.join(REPO, "geodepy")) if n.endswith(".py")}):
    path = os.path.join(REPO, rel)
    if not os.path.exists(path) or "/tests/" in rel:
        continue
    tree = ast.parse(open(path).read())
    defs = []
    for node in ast.walk(tree):
        if isinstance(node, (ast.FunctionDef, ast.AsyncFunctionDef)):
            defs.append((node.name, node.lineno))
    hit = {(n, l) for (f, n, l) in called if f == rel}
    # decorators shift co_firstlineno to the decorator line: match by name as a fallback
    hit_names = {n for (n, l) in hit}
    missing = [(n, l) for (n, l) in defs if (n, l) not in hit and n not in hit_names]
    print("%s: %d of %d functions entered" % (rel, len(defs) - len(missing), len(defs)))
    for n, l in sorted(missing, key=lambda t: t[1]):
        print("    not entered: %s (line %d)" % (n, l))
