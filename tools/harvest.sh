#!/bin/sh
# tools/harvest.sh <ID> [tree]: run the quick tier against another tree (default: the pinned snapshot in /tmp/orig),
# and keep every shrunk failure as a committed regression input under corpus/<ID>/.
ID=$1; TREE=${2:-/tmp/orig}
cd "$(dirname "$0")/.." || exit 2
rm -rf replays/$ID
VERIF_REPO=$TREE ./check $ID quick > /tmp/harvest_$ID.log 2>&1
grep -c VIOLATION /tmp/harvest_$ID.log
mkdir -p corpus/$ID
for f in replays/$ID/*.json; do [ -f "$f" ] && cp "$f" corpus/$ID/; done
ls corpus/$ID | wc -l
