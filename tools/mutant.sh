#!/bin/sh
# tools/mutant.sh <patch.diff> <tier> <ID> [<ID> ...]: apply a seeded change to a scratch worktree of /repo's HEAD (outside
# /repo and /verif), run the named checks against it (VERIF_REPO), report the exit codes, remove the worktree.
PATCH=$(readlink -f "$1"); TIER=$2; shift 2
cd "$(dirname "$0")/.." || exit 2
WT=/tmp/mut_$$
git -C /repo worktree add -q --detach $WT HEAD || exit 2
if ! git -C $WT apply --3way "$PATCH" 2>/tmp/mut_apply.err && ! git -C $WT apply "$PATCH"; then
    echo "PATCH DOES NOT APPLY"; cat /tmp/mut_apply.err; git -C /repo worktree remove --force $WT; exit 3
fi
for ID in "$@"; do
    VERIF_REPO=$WT ./check $ID $TIER > /tmp/mut_$ID.log 2>&1; rc=$?
    echo "$ID $TIER exit=$rc $(grep -c '^VIOLATION' /tmp/mut_$ID.log) violation line(s): $(grep -m2 -B4 '^VIOLATION' /tmp/mut_$ID.log | grep -v '^ *case\|expected\|observed\|VIOLATION' | head -2 | tr '\n' ' ')"
done
git -C /repo worktree remove --force $WT
git -C /repo checkout -q -- . 2>/dev/null
