#!/bin/sh
# tools/mutation_all.sh <A|B>: the two halves of the mutation-testing campaign (see tools/mutation_run.py); results in seeded/_mutation/
cd "$(dirname "$0")/.." || exit 2
if [ "$1" = "A" ]; then
  python3 tools/mutation_run.py geodepy/convert.py 70 C01 C02 C03 C10 C13 C14 C15 C09
  python3 tools/mutation_run.py geodepy/geodesy.py 60 C04 C05 C14 C20
  python3 tools/mutation_run.py geodepy/transform.py 40 C06 C07 C13 C17
  python3 tools/mutation_run.py geodepy/constants.py 30 C11 C06 C07 C01
else
  python3 tools/mutation_run.py geodepy/angles.py 60 C08 C12 C15
  python3 tools/mutation_run.py geodepy/statistics.py 30 C16
  python3 tools/mutation_run.py geodepy/survey.py 40 C19
  python3 tools/mutation_run.py geodepy/ntv2reader.py 40 C17
  MUT_FUNCS=read_sinex_comments,set_creation_time,read_sinex_header_line,read_sinex_estimate,read_sinex_matrix,read_sinex_sites,remove_stns_sinex,remove_velocity_sinex,remove_matrixzeros_sinex,read_sinex_site_id_block,read_sinex_solution_epochs_block,read_sinex_solution_estimate_block,read_sinex_solution_matrix_estimate_block python3 tools/mutation_run.py geodepy/gnss.py 40 C18
  python3 tools/mutation_run.py geodepy/coord.py 30 C15
  python3 tools/mutation_run.py api/app.py 15 C20
fi
