#!/bin/sh
# tools/soak.sh <tier> <seed> [<seed> ...]: run every registered check at the given seeds in fresh processes and report
# anything that is not exit 0 (anti-flakiness run on the unchanged tree).
TIER=$1; shift
cd "$(dirname "$0")/.." || exit 2
# SOAK_IDS="C01 C02" restricts the run to those checks
IDS=${SOAK_IDS:-$(ls gvp/checks | grep '^C[0-9]*\.py$' | sed 's/\.py//')}
for SEED in "$@"; do
  for ID in $IDS; do
    s=$(date +%s)
    VERIF_SEED=$SEED ./check $ID $TIER > /tmp/soak_${ID}_${SEED}.log 2>&1; rc=$?
    e=$(date +%s)
    if [ $rc -ne 0 ]; then echo "NOT-QUIET $ID seed=$SEED tier=$TIER exit=$rc ($((e-s))s) -> /tmp/soak_${ID}_${SEED}.log"; else echo "ok $ID seed=$SEED $((e-s))s"; fi
  done
done
