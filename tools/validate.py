#!/usr/bin/env python3
"""Validate MANIFEST.json and every evidence file against the given schemas (run with python3-vt, which has jsonschema)."""
import glob, json, sys, os
import jsonschema
HERE = os.path.dirname(os.path.dirname(os.path.abspath(__file__)))
ok = True
jsonschema.validate(json.load(open(HERE + '/MANIFEST.json')), json.load(open('/root/.vp/MANIFEST.schema.json')))
es = json.load(open('/root/.vp/EVIDENCE.schema.json'))
for f in sorted(glob.glob(HERE + '/evidence/*.json')):
    try:
        jsonschema.validate(json.load(open(f)), es)
    except Exception as e:
        ok = False
        print('INVALID', f, str(e)[:300])
print('valid' if ok else 'INVALID')
sys.exit(0 if ok else 1)
