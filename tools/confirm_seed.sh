#!/bin/sh
# tools/confirm_seed.sh <name> <dir with patch.diff demo.py meta.json>
# Confirms a seeded change independently in a scratch worktree of /repo's HEAD: demo passes without the patch, the
# repository's own suite passes with it (75 tests), demo fails with it.  On success stores it as seeded/<name>/.
NAME=$1; SRC=$(readlink -f "$2")
cd "$(dirname "$0")/.." || exit 2
WT=/tmp/confirm_$$
git -C /repo worktree add -q --detach $WT HEAD || exit 2
cleanup() { git -C /repo worktree remove --force $WT; }
( cd $WT && PYTHONPATH=$WT /venv/bin/python $SRC/demo.py $WT > /tmp/confirm_clean.log 2>&1 ); rc_clean=$?
if ! git -C $WT apply --3way $SRC/patch.diff 2>/dev/null && ! git -C $WT apply $SRC/patch.diff; then echo "$NAME: PATCH DOES NOT APPLY"; cleanup; exit 3; fi
git -C $WT diff HEAD > /tmp/confirm_patch.diff
( cd $WT && /venv/bin/python -m pytest -q -p no:cacheprovider --timeout=900 2>&1 | tail -1 > /tmp/confirm_pytest.log )
( cd $WT && PYTHONPATH=$WT /venv/bin/python $SRC/demo.py $WT > /tmp/confirm_mut.log 2>&1 ); rc_mut=$?
cleanup
echo "$NAME: demo clean rc=$rc_clean ($(tail -1 /tmp/confirm_clean.log)); pytest with patch: $(cat /tmp/confirm_pytest.log); demo with patch rc=$rc_mut ($(tail -1 /tmp/confirm_mut.log | cut -c1-100))"
if [ $rc_clean -eq 0 ] && [ $rc_mut -ne 0 ] && grep -q "75 passed" /tmp/confirm_pytest.log; then
    mkdir -p seeded/$NAME
    cp /tmp/confirm_patch.diff seeded/$NAME/patch.diff
    cp $SRC/demo.py seeded/$NAME/demo.py
    /venv/bin/python - "$NAME" "$SRC" <<'PY'
import json, sys
name, src = sys.argv[1], sys.argv[2]
m = json.load(open(src + '/meta.json'))
m['confirmed'] = {"by": "tools/confirm_seed.sh in a scratch worktree of /repo HEAD",
                  "demo_without_patch": "exit 0 (PASS)", "repo_suite_with_patch": "75 passed", "demo_with_patch": "exit 1 (FAIL)"}
json.dump(m, open('seeded/%s/meta.json' % name, 'w'), indent=1)
PY
    echo "$NAME: CONFIRMED -> seeded/$NAME"
else
    echo "$NAME: NOT CONFIRMED"
fi
