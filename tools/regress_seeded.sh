#!/bin/sh
# tools/regress_seeded.sh [tier]: run every stored seeded change (seeded/C??x/patch.diff) against its property's check in a scratch
# worktree of /repo's HEAD and list the ones that are NOT detected (sensitivity regression after the checks were edited).
TIER=${1:-quick}
cd "$(dirname "$0")/.." || exit 2
miss=0; n=0
for d in seeded/C[0-9][0-9]?; do
    name=$(basename $d); id=$(echo $name | cut -c1-3)
    [ -f $d/patch.diff ] || continue
    # REGRESS_IDS="C02 C10" restricts the run to those properties
    if [ -n "$REGRESS_IDS" ]; then case " $REGRESS_IDS " in *" $id "*) ;; *) continue ;; esac; fi
    n=$((n+1))
    out=$(tools/mutant.sh $d/patch.diff $TIER $id 2>&1 | grep -v conda)
    case "$out" in
        *"exit=1"*) echo "caught  $name" ;;
        *"DOES NOT APPLY"*) echo "STALE   $name (patch no longer applies to HEAD)" ;;
        *) if grep -q '"status' $d/meta.json 2>/dev/null; then echo "expected (recorded in its meta.json as superseded / not claimed)  $name"; else echo "MISSED  $name: $out"; miss=$((miss+1)); fi ;;
    esac
done
echo "seeded changes: $n, not detected: $miss"
