#!/usr/bin/env python3
"""tools/line_coverage.py [IDs]: which executable lines of the code under test do the checks' quick tiers never execute?

Like tools/api_coverage.py but per line (sys.monitoring LINE events inside the harness' workers, Python 3.12).  Prints, per file,
the unexecuted line ranges with their source text.  A diagnostic for generator gaps, not part of any check."""
import json, os, subprocess, sys, tempfile

HERE = os.path.dirname(os.path.dirname(os.path.abspath(__file__)))
REPO = os.environ.get("VERIF_REPO", "/repo")
FILES = ["geodepy/angles.py", "geodepy/convert.py", "geodepy/geodesy.py", "geodepy/transform.py", "geodepy/constants.py",
         "geodepy/statistics.py", "geodepy/survey.py", "geodepy/ntv2reader.py", "geodepy/coord.py", "geodepy/gnss.py", "api/app.py",
         "Standalone/mga2gda.py"]
out = tempfile.mktemp(prefix="linetrace_", suffix=".jsonl")
ids = sys.argv[1:] or ["C%02d" % i for i in range(1, 21)]
for i in ids:
    subprocess.call([os.path.join(HERE, "check"), i, "quick"], env=dict(os.environ, GVP_CALLTRACE=out, GVP_CALLTRACE_LINES="1"),
                    stdout=subprocess.DEVNULL, stderr=subprocess.DEVNULL)
hit = {}
for line in open(out):
    for c in json.loads(line)["called"]:
        f, _, ln = c.rsplit(":", 2)
        hit.setdefault(f, set()).add(int(ln))
os.remove(out)


def exec_lines(code, acc):
    for _, _, ln in code.co_lines():
        if ln:
            acc.add(ln)
    for k in code.co_consts:
        if hasattr(k, "co_lines"):
            exec_lines(k, acc)


for rel in FILES:
    path = os.path.join(REPO, rel)
    src = open(path).read()
    lines = src.split("\n")
    acc = set()
    top = compile(src, path, "exec")
    # module-level statements run at import (before the monitor starts): count only lines inside functions
    for k in top.co_consts:
        if hasattr(k, "co_lines"):
            exec_lines(k, acc)
    # class bodies execute at import as well: drop their own statement lines (def lines, docstrings)
    missing = sorted(l for l in acc if l not in hit.get(rel, set()))
    print("== %s: %d of %d function-body lines executed" % (rel, len(acc) - len(missing), len(acc)))
    start = prev = None
    for l in missing + [None]:
        if start is None:
            start = prev = l
        elif l is not None and l <= prev + 2:
            prev = l
        else:
            print("   %d-%d: %s" % (start, prev, lines[start - 1].strip()[:110]))
            start = prev = l
