#!/usr/bin/env python3
"""tools/seed_round_focus.py <property id> <focus.json>: like tools/seed_round.py, but every agent gets the SAME property and its own
focus text; the JSON file maps a one-letter suffix to that text.  Prompts in /tmp/seed_out/prompt_<ID><suffix>.txt."""
import json, os, subprocess, sys
HERE = os.path.dirname(os.path.dirname(os.path.abspath(__file__)))
pid, focus = sys.argv[1], json.load(open(sys.argv[2]))
sys.argv = [sys.argv[0], "?", "/dev/null"]
src = open(os.path.join(HERE, "tools", "seed_round.py")).read()
prop = [json.loads(l) for l in open(os.path.join(HERE, "properties.jsonl")) if json.loads(l)["id"] == pid][0]
os.makedirs("/tmp/lens", exist_ok=True)
for suffix, text in sorted(focus.items()):
    lens = "/tmp/lens/_focus_%s%s.txt" % (pid, suffix)
    open(lens, "w").write("A FOCUSED ROUND ON THIS ONE PROPERTY. " + text + " The first call of a fresh process must be correct; ordinary single calls must be unaffected; "
                          "the demo must show the violation through the public API only (for a concurrency-only violation the demo may force the interleaving, e.g. with "
                          "sys.settrace / sys.monitoring / threading.Barrier hooks or by running many threads with sys.setswitchinterval(1e-6) until it shows, and must be "
                          "deterministic enough to FAIL reliably on the modified tree and PASS reliably on the unmodified one). State in meta.json under 'needs' exactly which "
                          "function, argument representation, call sequence or interleaving is required.")
    # reuse seed_round.py for one property: run it on a one-line properties file
    tmp = "/tmp/lens/_props_%s.jsonl" % pid
    open(tmp, "w").write(json.dumps(prop) + "\n")
    code = src.replace('os.path.join(HERE, "properties.jsonl")', repr(tmp))
    sys.argv = [sys.argv[0], suffix, lens]
    exec(compile(code, "seed_round.py", "exec"), {"__name__": "__main__", "__file__": os.path.join(HERE, "tools", "seed_round.py")})
