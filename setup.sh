#!/bin/sh
# Offline setup: make sure hypothesis is importable from /venv (idempotent; nothing is fetched).
set -e
PY=${VERIF_PYTHON:-/venv/bin/python}
if ! "$PY" -c "import hypothesis" 2>/dev/null; then
    /venv/bin/pip install --no-index --find-links /opt/veriftools/wheels hypothesis
fi
"$PY" -c "import hypothesis, numpy, scipy; print('setup ok: hypothesis', hypothesis.__version__, 'numpy', numpy.__version__, 'scipy', scipy.__version__)"
