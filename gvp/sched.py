"""An *owned* thread schedule for C09's concurrency clause (CPython >= 3.12, sys.monitoring).

Several calls run in one thread each, but only the thread that holds the baton executes; it can lose the baton only at a
LINE event of a source file of the code under test, where the *plan* (a list of quanta = numbers of library lines a thread
executes before it is pre-empted, consumed round-robin) decides.  A schedule is therefore a plain value: the same calls under
the same plan interleave in exactly the same way on every run, every single-pre-emption schedule of a pair of calls can be
enumerated, and a failing schedule is its own replay.  (Granularity: source lines of the library, not byte codes; a race inside
one source line is not reachable.)
"""
import sys
import threading

from . import repo

TOOL = 3
INF = 10 ** 12
_LOCK = threading.Lock()


def available():
    return hasattr(sys, "monitoring")


class Stuck(Exception):
    """The schedule could not be realised (a pre-empted thread held something the next one needed): not a verdict."""


class _Run(object):
    def __init__(self, n, quanta, timeout):
        self.cv = threading.Condition()
        self.n = n
        self.quanta = list(quanta) or [INF]
        self.qi = 0
        self.turn = 0
        self.left = self.quanta[0]
        self.alive = [True] * n
        self.idents = {}
        self.events = 0
        self.switches = 0
        self.per_thread = [0] * n
        self.free = False          # set when the schedule is abandoned: everybody runs unrestrained
        self.timeout = timeout

    def _pass(self, me):
        """(cv held) hand the baton to the next live thread after *me* and give it the next quantum."""
        for d in range(1, self.n + 1):
            t = (me + d) % self.n
            if self.alive[t]:
                break
        else:
            return
        self.qi += 1
        self.left = self.quanta[self.qi % len(self.quanta)]
        if t != me:
            self.switches += 1
        self.turn = t
        self.cv.notify_all()

    def _await(self, me):
        while self.turn != me and not self.free:
            if not self.cv.wait(self.timeout):
                self.free = True
                self.cv.notify_all()

    def on_line(self, me):
        with self.cv:
            if self.free:
                return
            self.events += 1
            self.per_thread[me] += 1
            if self.left > 0:
                self.left -= 1
                return
            self._pass(me)
            self._await(me)
            self.left -= 1          # the line about to execute is the first of the new quantum

    def start(self, me):
        with self.cv:
            self.idents[threading.get_ident()] = me
            self._await(me)

    def finish(self, me):
        with self.cv:
            self.alive[me] = False
            self.idents.pop(threading.get_ident(), None)
            if not self.free and self.turn == me:
                self._pass(me)


def run(thunks, quanta, timeout=20.0):
    """Run the thunks, one thread each, under the plan.  -> (results, info); results[i] = ("ok", value) | ("exc", exception).

    quanta [k, INF]   thread 0 executes k library lines, then the others run to completion, then thread 0 finishes
    quanta [1]        the baton moves on after every library line
    """
    if not available():
        raise Stuck("sys.monitoring is not available")
    mon = sys.monitoring
    state = _Run(len(thunks), quanta, timeout)
    results = [None] * len(thunks)
    is_repo = repo.is_repo_file
    known = {}

    def cb(code, line):
        me = state.idents.get(threading.get_ident())
        fn = code.co_filename
        r = known.get(fn)
        if r is None:
            r = known[fn] = bool(is_repo(fn))
        if not r:
            return mon.DISABLE
        if me is not None:
            state.on_line(me)
        return None

    def work(i):
        state.start(i)
        try:
            try:
                results[i] = ("ok", thunks[i]())
            except Exception as e:     # noqa: an exception is a result
                results[i] = ("exc", e)
        finally:
            state.finish(i)

    with _LOCK:
        try:
            mon.use_tool_id(TOOL, "gvp-sched")
        except ValueError:
            raise Stuck("monitoring tool id %d is in use" % TOOL)
        try:
            mon.register_callback(TOOL, mon.events.LINE, cb)
            mon.set_events(TOOL, mon.events.LINE)
            ts = [threading.Thread(target=work, args=(i,), daemon=True) for i in range(len(thunks))]
            for t in ts:
                t.start()
            for t in ts:
                t.join(4 * timeout)
            hung = any(t.is_alive() for t in ts)
        finally:
            mon.set_events(TOOL, 0)
            mon.register_callback(TOOL, mon.events.LINE, None)
            mon.free_tool_id(TOOL)
    if hung or state.free:
        raise Stuck("schedule not realisable within %.0f s" % timeout)
    return results, {"events": state.events, "switches": state.switches, "per_thread": state.per_thread}


def count_lines(thunk):
    """Number of library LINE events one call generates when it runs alone (and its result)."""
    res, info = run([thunk], [INF])
    return info["events"], res[0]
