"""Shared generators. Every strategy yields plain-JSON values so a case can be written to a replay file."""
import math

from hypothesis import strategies as st

from . import repo
from .core import Discard

SHIPPED_ELLIPSOIDS = ["grs80", "wgs84", "ans", "intl24"]
ANGLE_KINDS = ["float", "deca", "hpa", "gona", "dms", "ddm"]
ISG_ZONES = [541, 542, 543, 551, 552, 553, 561, 562, 563, 572]


def floats(lo, hi, **kw):
    return st.floats(min_value=lo, max_value=hi, allow_nan=False, allow_infinity=False, **kw)


def with_edges(lo, hi, edges, p_edge=0.25):
    """Uniform floats in [lo, hi] mixed with an explicit pool of edge values (and +-tiny offsets of them)."""
    pool = []
    for e in edges:
        for d in (0.0, 1e-9, -1e-9, 1e-12, -1e-12):
            v = e + d
            if lo <= v <= hi:
                pool.append(v)
    base = floats(lo, hi)
    if not pool:
        return base
    # Hypothesis' own float generation already favours "nasty" values; the pool adds the domain's special sets
    return st.one_of(base, base, base, st.sampled_from(sorted(set(pool))))


def log_uniform(lo, hi):
    return floats(math.log(lo), math.log(hi)).map(math.exp)


def near(values, lo, hi, dmin=1e-13, dmax=1.0):
    """A special value plus or minus an offset whose *magnitude* is log-uniform over [dmin, dmax]: neighbourhoods of every
    width around the named values of a domain (cardinal directions, whole degrees, limits), clamped to [lo, hi]."""
    vals = sorted(set(float(v) for v in values))
    return st.tuples(st.sampled_from(vals), st.booleans(), floats(math.log(dmin), math.log(dmax))).map(
        lambda t: min(max(t[0] + (1 if t[1] else -1) * math.exp(t[2]), lo), hi))


def ellipsoid_spec(invf_lo=150.0, invf_hi=400.0, shipped_weight=2):
    shipped = st.sampled_from(SHIPPED_ELLIPSOIDS)
    custom = st.fixed_dictionaries({"a": floats(6.3e6, 6.4e6), "invf": floats(invf_lo, invf_hi),
                                    "cls": st.sampled_from(["plain", "plain", "subclass"])})
    # an ellipsoid of the caller's own with the very parameters of a shipped one (a distinct object: `ellipsoid is grs80` is false,
    # every number is equal), parameters given as floats or the way people type them (6378137, 298.25)
    twins = st.sampled_from([{"a": 6378137.0, "invf": 298.257222101}, {"a": 6378137, "invf": 298.257222101}, {"a": 6378160.0, "invf": 298.25},
                             {"a": 6378388, "invf": 297}, {"a": 6378137.0, "invf": 298.257223563}])
    twins = twins.filter(lambda t: invf_lo <= t["invf"] <= invf_hi)
    return st.one_of(*([shipped] * shipped_weight + [custom, custom, twins]))


def make_ellipsoid(spec):
    c = repo.mod("geodepy.constants")
    if isinstance(spec, str):
        return getattr(c, spec)
    if spec.get("cls") == "subclass":
        # an ellipsoid class of the caller's own, derived from the library's, with a constructor of its own (a name first)
        def __init__(self, name, a, invf):
            c.Ellipsoid.__init__(self, a, invf)
            self.name = name
        sub = type("CallerEllipsoid", (c.Ellipsoid,), {"__init__": __init__})
        return sub("mine", spec["a"], spec["invf"])
    return c.Ellipsoid(spec["a"], spec["invf"])


def ellipsoid_params(spec):
    """(a, 1/f) from the *documented* definition, independent of the catalogue object."""
    known = {"grs80": (6378137.0, 298.257222101), "wgs84": (6378137.0, 298.257223563),
             "ans": (6378160.0, 298.25), "intl24": (6378388.0, 297.0)}
    if isinstance(spec, str):
        return known[spec]
    return float(spec["a"]), float(spec["invf"])


def projection_spec():
    custom = st.fixed_dictionaries({
        "fe": st.sampled_from([0.0, 200000.0, 300000.0, 500000.0, 1234567.5]),
        "fn": st.sampled_from([0.0, 5000000.0, 10000000.0, 7654321.25]),
        "k0": st.one_of(st.sampled_from([0.9996, 0.99994, 1.0, 0.999]), floats(0.999, 1.0)),
        "zw": st.sampled_from([2, 3, 6, 8]),
        "cls": st.sampled_from(["plain", "plain", "subclass"]),
    })
    return st.one_of(st.just("utm"), st.just("utm"), st.just("isg"), custom)


def make_projection(spec):
    c = repo.mod("geodepy.constants")
    if isinstance(spec, str):
        return getattr(c, spec)
    zw = spec["zw"]
    # zone 1 centred so that the zones tile [-180, 180) like UTM's do
    cm1 = spec.get("cm1", -180.0 + zw / 2.0)
    if spec.get("cls") == "subclass":
        # a projection class of the caller's own, derived from the library's (an instance of it IS a Projection)
        sub = type("CallerProjection", (c.Projection,), {})
        return sub(spec["fe"], spec["fn"], spec["k0"], zw, cm1)
    return c.Projection(spec["fe"], spec["fn"], spec["k0"], zw, cm1)


def projection_params(spec):
    """(false easting, false northing, k0, zone width, initial cm, kind)"""
    if spec == "utm":
        return 500000.0, 10000000.0, 0.9996, 6.0, -177.0, "utm"
    if spec == "isg":
        return 300000.0, 5000000.0, 0.99994, 2.0, -177.0, "isg"
    zw = spec["zw"]
    return spec["fe"], spec["fn"], spec["k0"], float(zw), spec.get("cm1", -180.0 + zw / 2.0), "custom"


def isg_cm(zone):
    amg = zone // 10
    sub = zone % 10
    return (amg - 1) * 6.0 + (-177.0) + (sub - 2) * 2.0


def angle_obj(kind, value):
    """The library's own representation of `value` degrees in notation `kind` (C08 decides whether that
    representation is faithful; callers compare against the object's own .dec())."""
    a = repo.mod("geodepy.angles")
    try:
        if kind == "float":
            return float(value)
        if kind == "deca":
            return a.DECAngle(value)
        if kind == "hpa":
            return a.dec2hpa(value)
        if kind == "gona":
            return a.dec2gona(value)
        if kind == "dms":
            return a.dec2dms(value)
        if kind == "ddm":
            return a.dec2ddm(value)
    except ValueError:
        # an HP value the library cannot construct is C08's business, not the caller's
        raise Discard()
    raise ValueError(kind)


def obj_dec(x):
    if type(x) is float:      # DECAngle subclasses float: it must go through .dec() like the other classes
        return x
    try:
        return float(x.dec())
    except ValueError:
        raise Discard()


angle_kind = st.sampled_from(ANGLE_KINDS + ["float"] * 4)

# how a real number is handed to the library: users pass Python ints (whole metres / degrees) and numpy float64 scalars as
# readily as floats; the result must be the one for float(x).  (numpy float32 scalars are NOT generated: under NumPy 2
# promotion rules float32 + Python float stays float32, so single-precision inputs give single-precision results; the
# library documents "float" arguments and that loss is the caller's choice, not a violation.)
num_kind = st.sampled_from(["float"] * 6 + ["int", "int", "np64"])


def as_kind(x, kind):
    """x in the given representation; ints and float32 are used only when they hold x exactly (else x itself)."""
    import numpy as np
    if kind == "int" and float(x).is_integer() and abs(x) < 2 ** 53:
        return int(x)
    if kind == "np64":
        return np.float64(x)
    if kind == "np32" and float(np.float32(x)) == float(x):
        return np.float32(x)
    return x


def whole_sometimes(strategy):
    """Mix in whole-number values (so that the int / float32 representations above actually occur)."""
    return st.one_of(strategy, strategy, strategy.map(lambda v: float(round(v))))


def sweeps(salt, build, n_quick, n_thorough):
    """Stratified one-dimensional sweeps as an enumeration (see DESIGN 12, round 9).  build(rnd) -> [(weight, fn), ...]; fn maps
    f in (0, 1) to a case.  Line k is walked on a lattice of weight x n points with a seeded phase; everything build() draws
    comes from random.Random(f(VERIF_SEED)), so a run is a pure function of the seed and a failing lattice point is its own replay."""
    def enum(tier, seed, shard, nshards):
        import random
        rnd = random.Random(1000003 * int(seed) + salt)
        n0 = n_thorough if tier == "thorough" else n_quick
        i = 0
        for weight, fn in build(rnd):
            n = max(1, int(n0 * weight))
            ph = rnd.random()
            for k in range(n):
                if i % nshards == shard:
                    yield fn((k + ph) / n)
                i += 1
    return enum


def sweep_ellipsoid(rnd, invf_lo=150.0, invf_hi=400.0):
    if rnd.random() < 0.5:
        return SHIPPED_ELLIPSOIDS[rnd.randrange(4)]
    return {"a": rnd.uniform(6.3e6, 6.4e6), "invf": rnd.uniform(invf_lo, invf_hi)}


_PRIMES = [2, 3, 5, 7, 11, 13, 17, 19, 23, 29, 31, 37, 41, 43, 47, 53]


def _radical_inverse(i, base):
    f, r = 1.0, 0.0
    while i > 0:
        f /= base
        r += f * (i % base)
        i //= base
    return r


def fill(salt, dims, build, n_quick, n_thorough):
    """Quasi-random fill of the whole quantifier as an enumeration: point i of a Halton sequence in `dims` dimensions (bases = the
    first primes; a seeded Cranley-Patterson shift per dimension and a seeded start index make each VERIF_SEED a different, equally
    even point set) is handed to build(u) -> case (or None to skip), u in [0, 1)^dims.  Where random draws hit a region of measure
    p with probability 1 - exp(-n p), a low-discrepancy set of n points covers every box-shaped region of measure >> log(n)^d / n;
    evaluation costs no generator overhead, so n can be 10 - 100 times what the Hypothesis sub-checks draw in the same time.
    A failing point is its own replay case (nothing to shrink: the case is the point)."""
    if dims > len(_PRIMES):
        raise ValueError("fill: too many dimensions")

    def enum(tier, seed, shard, nshards):
        import random
        rnd = random.Random(1000003 * int(seed) + salt)
        shift = [rnd.random() for _ in range(dims)]
        start = rnd.randrange(1000, 100000)
        n = n_thorough if tier == "thorough" else n_quick
        for i in range(shard, n, nshards):
            u = [(_radical_inverse(start + i, _PRIMES[d]) + shift[d]) % 1.0 for d in range(dims)]
            c = build(u)
            if c is not None:
                yield c
    return enum


def u_pick(u, seq):
    """Element of seq selected by u in [0, 1), and the remainder of u rescaled to [0, 1) (so one coordinate can serve twice)."""
    k = min(int(u * len(seq)), len(seq) - 1)
    return seq[k], u * len(seq) - k


def u_ellipsoid(u1, u2, invf_lo=150.0, invf_hi=400.0):
    """Half shipped ellipsoids, half arbitrary Earth-like ones, from two unit coordinates."""
    if u1 < 0.5:
        return SHIPPED_ELLIPSOIDS[min(int(u1 * 8), 3)]
    return {"a": 6.3e6 + (u1 - 0.5) * 2 * 1e5, "invf": invf_lo + u2 * (invf_hi - invf_lo)}
