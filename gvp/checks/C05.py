"""C05 Inverse geodesic solution is exact, symmetric and longitude-shift invariant."""
import math

from hypothesis import strategies as st

from .. import repo, strategies as S
from ..core import SubCheck, Fail, Discard, metric, target, is_seq
from ..oracles import geodesic_exact as G

RULE = ("point pairs with spherical separation <= 178 deg: independent draws, near pairs (1e-8 deg .. 10 deg apart), same "
        "meridian, same parallel, equatorial, polar, straddling +-180, coincident; 4 shipped ellipsoids + random "
        "(1/f in [280, 320]); oblique pairs 2..8 deg short of antipodal; floats, whole-degree ints, numpy float64; "
        "non-trivial = separation > 1 m")
ASSUMPTIONS = ["arrival is judged by following the exact (quadrature) geodesic with the returned distance and azimuth",
               "reverse azimuth tolerance: 1e-8 deg + 2 mm / (radius of the parallel of point 2) + 8 eps a / s rad "
               "(float-cancellation floor of any double-precision inverse; < 1e-8 deg for lines longer than 60 m) (DESIGN 2)",
               "'moves the far end by 1 mm': |d azimuth| x reduced length m12 <= 1 mm, m12 from the spherical formula "
               "(1 % accurate, applied with a 2 % safety factor)",
               "comparisons of two results rounded by the code (distance to 1 mm, azimuths to 1e-9 deg) get the fuzz factor 1.0005"]

EPS = 2.220446049250313e-16


def selftest():
    G.selftest()


def _angdiff(a, b):
    return abs((a - b + 180.0) % 360.0 - 180.0)


def _sph_sep(lat1, lon1, lat2, lon2):
    p1, p2 = math.radians(lat1), math.radians(lat2)
    dl = math.radians(lon2 - lon1)
    h = math.sin((p2 - p1) / 2) ** 2 + math.cos(p1) * math.cos(p2) * math.sin(dl / 2) ** 2
    return math.degrees(2 * math.asin(min(1.0, math.sqrt(h))))


def _domain(case):
    if _sph_sep(case["lat1"], case["lon1"], case["lat2"], case["lon2"]) > 178.0:
        raise Discard()


def _call(gd, case, ell, swap=False, shift=0.0):
    a = [case["lat1"], case["lon1"] + shift, case["lat2"], case["lon2"] + shift]
    if swap:
        a = a[2:] + a[:2]
    a = [S.as_kind(v, case.get("num", "float")) for v in a]       # Python ints / numpy float64 where they hold the value
    # the default ellipsoid is GRS80: leave the argument out when that is what the case asks for
    r = gd.vincinv(*a) if (case["ell"] == "grs80" and case.get("defaults")) else gd.vincinv(*a, ell)
    if not is_seq(r, 3):
        raise Fail("vincinv did not return (distance, azimuth1to2, azimuth2to1)", observed=repr(r))
    return r


def _coincident(case):
    return abs(case["lat1"] - case["lat2"]) < 1e-10 and abs(case["lon1"] - case["lon2"]) < 1e-10


def check_arrival(case):
    _domain(case)
    gd = repo.mod("geodepy.geodesy")
    ell = S.make_ellipsoid(case["ell"])
    a, invf = S.ellipsoid_params(case["ell"])
    dist, az12, az21 = _call(gd, case, ell)
    if case["lat1"] == case["lat2"] and case["lon1"] == case["lon2"]:
        if dist != 0:
            raise Fail("coincident points do not return zero distance", expected=0, observed=dist)
        return
    if not (dist >= 0 and 0.0 <= az12 <= 360.0):
        raise Fail("distance negative or forward azimuth outside [0, 360]", observed=(dist, az12, az21))
    e_lat, e_lon, e_az = G.direct(case["lat1"], case["lon1"], az12, dist, a, invf)
    d = G.metric_distance(e_lat, e_lon, case["lat2"], case["lon2"], a, invf)
    metric("arrival_err_m", d)
    target(d, "arrival_err")
    if not d <= 2e-3:
        raise Fail("following the exact geodesic with the returned distance and azimuth misses point 2 by more than 2 mm",
                   expected={"lat2": case["lat2"], "lon2": case["lon2"], "tol_m": 2e-3},
                   observed={"dist": dist, "az12": az12, "arrive_lat": e_lat, "arrive_lon": e_lon, "miss_m": d})
    # reverse azimuth
    f = 1.0 / invf
    e2 = f * (2 - f)
    phi2 = math.radians(case["lat2"])
    p = a * math.cos(phi2) / math.sqrt(1 - e2 * math.sin(phi2) ** 2)
    if p > 1.0 and dist > 0:
        tol = 1e-8 + math.degrees(2e-3 / p) + math.degrees(8 * EPS * a / dist)
        da = _angdiff(az21, e_az + 180.0)
        metric("rev_azimuth_err_over_tol", da / tol)
        if not da <= tol:
            raise Fail("reverse azimuth differs from the geodesic's azimuth at point 2 + 180 deg beyond the stated tolerance",
                       expected={"azimuth2to1": (e_az + 180.0) % 360.0, "tol_deg": tol},
                       observed={"azimuth2to1": az21, "diff_deg": da, "dist": dist})


def _m12(dist, a, invf):
    return G.reduced_length(0.0, 0.0, dist, a, invf)


def _compare(what, ref, other, a, invf, ctx):
    """ref = (dist, az12, az21) of the original call; other = the same three quantities from the transformed call."""
    dd = abs(ref[0] - other[0])
    metric(what + "_ddist_m", dd)
    if not dd <= 1e-3 * 1.0005:
        raise Fail("%s changes the distance by more than 1 mm" % what, expected=ref, observed=dict(ctx, result=other))
    m = 1.02 * _m12(max(ref[0], other[0]), a, invf) + 1e-9
    for i, name in ((1, "forward"), (2, "reverse")):
        da = math.radians(_angdiff(ref[i], other[i]))
        # two azimuths each rounded to 1e-9 deg can differ by one unit of that rounding
        move = max(0.0, da - math.radians(1.0005e-9)) * m
        metric(what + "_az_move_m", move)
        if not move <= 1e-3:
            raise Fail("%s changes the %s azimuth by more than moves the far end of the line by 1 mm" % (what, name),
                       expected=ref, observed=dict(ctx, result=other, moves_far_end_m=move))


def check_angle_classes(case):
    """Arguments given in any supported angle class give the same result as their decimal-degree values."""
    _domain(case)
    gd = repo.mod("geodepy.geodesy")
    ell = S.make_ellipsoid(case["ell"])
    k = case["kind"]
    objs = [S.angle_obj(k, case[n]) for n in ("lat1", "lon1", "lat2", "lon2")]
    decs = [S.obj_dec(o) for o in objs]
    if not all(-90.0 <= v <= 90.0 for v in (decs[0], decs[2])):
        raise Discard()
    if _sph_sep(decs[0], decs[1], decs[2], decs[3]) > 178.0:
        raise Discard()
    ra = gd.vincinv(*objs, ell)
    rb = gd.vincinv(*decs, ellipsoid=ell)
    if not (is_seq(ra, 3) and is_seq(rb, 3)):
        raise Fail("vincinv did not return (distance, azimuth1to2, azimuth2to1)", observed=repr(ra))
    a, invf = S.ellipsoid_params(case["ell"])
    # the same result within the tolerances the statement itself uses for equivalent calls (1 mm, azimuths to 1 mm at the far end)
    _compare("passing angle objects instead of their decimal-degree values", rb, ra, a, invf, {"kind": k})


def check_swap(case):
    _domain(case)
    gd = repo.mod("geodepy.geodesy")
    ell = S.make_ellipsoid(case["ell"])
    a, invf = S.ellipsoid_params(case["ell"])
    r = _call(gd, case, ell)
    s = _call(gd, case, ell, swap=True)
    if _coincident(case):
        if r[0] != 0 or s[0] != 0:
            raise Fail("coincident points do not return zero distance", expected=0, observed=(r, s))
        return
    # swapped call: distance the same, azimuths exchanged
    _compare("swapping the points", r, (s[0], s[2], s[1]), a, invf, {"swapped_raw": s})


def check_shift(case):
    _domain(case)
    gd = repo.mod("geodepy.geodesy")
    ell = S.make_ellipsoid(case["ell"])
    a, invf = S.ellipsoid_params(case["ell"])
    r = _call(gd, case, ell)
    s = _call(gd, case, ell, shift=case["shift"])
    if _coincident(case):
        if r[0] != 0 or s[0] != 0:
            raise Fail("coincident points do not return zero distance", expected=0, observed=(r, s))
        return
    _compare("a common longitude offset", r, s, a, invf, {"shift": case["shift"]})


# ------------------------------------------------------------------------------------------------ generators

lat_s = st.one_of(S.floats(-90, 90), S.floats(-90, 90), S.floats(-90, 90), st.sampled_from([0.0, 90.0, -90.0, 45.0, -45.0]))
lon_s = st.one_of(S.floats(-180, 180), S.floats(-180, 180), st.sampled_from([0.0, 180.0, -180.0, 179.9999, -179.9999, 90.0]))
ell_s = S.ellipsoid_spec(280.0, 320.0)
_unit = S.floats(0.0, 1.0)


def _clamp_lat(x):
    return max(-90.0, min(90.0, x))


def _wrap_lon(x):
    """Into [-180, 180] (the quantifier's longitudes), whatever the offset that was added."""
    if -180.0 <= x <= 180.0:
        return x
    return (x + 180.0) % 360.0 - 180.0


@st.composite
def pairs(draw):
    kind = draw(st.sampled_from(["independent", "independent", "independent", "near", "near", "meridian", "parallel",
                                 "equatorial", "polar", "dateline", "coincident", "over-pole", "near-antipodal", "near-antipodal",
                                 "very-near"]))
    lat1, lon1 = draw(lat_s), draw(lon_s)
    if kind == "independent":
        lat2, lon2 = draw(lat_s), draw(lon_s)
    elif kind == "near":
        sep = draw(S.log_uniform(1e-8, 10.0))
        brg = draw(S.floats(0.0, 2 * math.pi))
        lat2 = _clamp_lat(lat1 + sep * math.cos(brg))
        c = max(math.cos(math.radians(lat1)), 1e-3)
        lon2 = _wrap_lon(lon1 + sep * math.sin(brg) / c)
    elif kind == "very-near":
        # 0.1 mm .. 10 cm apart: where "are the two points the same?" is decided, at any coordinate magnitude
        sep = draw(S.log_uniform(1e-9, 1e-6))
        brg = draw(S.floats(0.0, 2 * math.pi))
        lat2 = _clamp_lat(lat1 + sep * math.cos(brg))
        lon2 = _wrap_lon(lon1 + sep * math.sin(brg) / max(math.cos(math.radians(lat1)), 1e-3))
    elif kind == "meridian":
        lat2, lon2 = draw(lat_s), lon1
    elif kind == "parallel":
        lat2, lon2 = lat1, draw(lon_s)
    elif kind == "equatorial":
        lat1 = 0.0
        lat2, lon2 = 0.0, draw(lon_s)
    elif kind == "polar":
        lat1 = draw(st.sampled_from([90.0, -90.0, 89.999999, -89.999999]))
        lat2, lon2 = draw(lat_s), draw(lon_s)
        if draw(st.booleans()):
            lat1, lon1, lat2, lon2 = lat2, lon2, lat1, lon1
    elif kind == "dateline":
        lon1 = 180.0 - draw(S.log_uniform(1e-7, 30.0))
        lon2 = -180.0 + draw(S.log_uniform(1e-7, 30.0))
        lat2 = draw(lat_s)
        if draw(st.booleans()):
            lon1, lon2 = lon2, lon1
    elif kind == "coincident":
        lat2, lon2 = lat1, lon1
    elif kind == "near-antipodal":
        # oblique pairs 2 .. 8 degrees short of antipodal: where the inverse iteration converges slowest
        lat1 = draw(S.floats(-75.0, 75.0))
        off = draw(S.floats(2.05, 8.0))
        brg = draw(S.floats(0.0, 2 * math.pi))
        lat2 = _clamp_lat(-lat1 + off * math.cos(brg))
        lon2 = _wrap_lon(lon1 + 180.0 + off * math.sin(brg) / max(math.cos(math.radians(lat1)), 0.2))
    else:   # the two points on opposite meridians: the geodesic passes over (or near) a pole
        lat2 = draw(lat_s)
        lon2 = _wrap_lon(lon1 + 180.0 + draw(st.sampled_from([0.0, 1e-9, -1e-9, 0.001, -0.001])))
    num = draw(S.num_kind)
    if num == "int" and draw(st.booleans()):
        lat1, lon1, lat2, lon2 = (float(round(v)) for v in (lat1, lon1, lat2, lon2))       # whole degrees, passed as ints
    return {"lat1": lat1, "lon1": lon1, "lat2": lat2, "lon2": lon2, "ell": draw(ell_s), "pair": kind, "defaults": draw(st.booleans()),
            "num": num}


@st.composite
def shifted_pairs(draw):
    c = draw(pairs())
    c["shift"] = draw(st.one_of(st.sampled_from([360.0, -360.0, 180.0, -180.0, 90.0, 1e-9]), S.floats(-360.0, 360.0)))
    return c


def _nt(case):
    return _sph_sep(case["lat1"], case["lon1"], case["lat2"], case["lon2"]) * 111000.0 > 1.0


def _classes(case):
    out = ["pair:" + case["pair"], "ell:" + (case["ell"] if isinstance(case["ell"], str) else "custom")]
    sep = _sph_sep(case["lat1"], case["lon1"], case["lat2"], case["lon2"])
    out.append("sep<1m" if sep * 111000 < 1 else ("sep<1km" if sep * 111 < 1 else ("sep<10deg" if sep < 10 else
               ("sep<170deg" if sep < 170 else "sep>=170deg"))))
    if (case["lon1"] > 150 and case["lon2"] < -150) or (case["lon2"] > 150 and case["lon1"] < -150):
        out.append("straddles+-180")
    if 172.0 <= sep <= 178.0 and abs(case["lon1"] - case["lon2"]) % 180.0 > 0.5:
        out.append("oblique 172-178 deg")
    if case.get("num", "float") != "float":
        out.append("num:" + case["num"])
    return out


kind_pairs = pairs().flatmap(lambda c: st.sampled_from(["deca", "hpa", "gona", "dms", "ddm"]).map(lambda k: dict(c, kind=k)))

def _sweep_lines(rnd):
    """The second point walked along a meridian (lat2 = -90..90) and around a parallel (lon2 = -180..180), and the first point
    along its meridian, everything else fixed per line by the seed (pairs beyond 178 deg of separation are discarded by the check)."""
    out = []
    for rep in range(2):
        ell = "grs80" if rep == 0 else S.sweep_ellipsoid(rnd, 280.0, 320.0)
        lat1, lon1 = rnd.uniform(-85.0, 85.0), rnd.uniform(-180.0, 180.0)
        lat2, lon2 = rnd.uniform(-85.0, 85.0), rnd.uniform(-180.0, 180.0)
        base = {"ell": ell, "pair": "sweep", "defaults": False, "num": "float"}
        out.append((1.0, lambda f, b=base, a=lat1, o=lon1, o2=lon2: dict(b, lat1=a, lon1=o, lat2=-90.0 + 180.0 * f, lon2=o2)))
        out.append((1.0, lambda f, b=base, a=lat1, o=lon1, a2=lat2: dict(b, lat1=a, lon1=o, lat2=a2, lon2=-180.0 + 360.0 * f)))
        if rep:
            out.append((1.0, lambda f, b=base, o=lon1, a2=lat2, o2=lon2: dict(b, lat1=-90.0 + 180.0 * f, lon1=o, lat2=a2, lon2=o2)))
    return out


def _near_fill(u):
    """Short and medium lines: first point uniform, bearing uniform, separation log-uniform 1e-9 .. 10 deg (0.1 mm .. 1 100 km)."""
    lat1, lon1 = -89.0 + 178.0 * u[0], -180.0 + 360.0 * u[1]
    sep = 10.0 ** (-9.0 + 10.0 * u[2])
    brg = 2 * math.pi * u[3]
    lat2 = _clamp_lat(lat1 + sep * math.cos(brg))
    lon2 = _wrap_lon(lon1 + sep * math.sin(brg) / max(math.cos(math.radians(lat1)), 1e-3))
    return {"lat1": lat1, "lon1": lon1, "lat2": lat2, "lon2": lon2, "ell": S.u_ellipsoid(u[4], u[5], 280.0, 320.0), "pair": "near-fill",
            "defaults": False, "num": "float"}


def _near_shift_fill(u):
    c = _near_fill(u)
    k, r = S.u_pick(u[5], [360.0, -360.0, 180.0, -180.0, None, None])
    c["shift"] = k if k is not None else -360.0 + 720.0 * r
    return c


def _fill_build(u):
    return {"lat1": -90.0 + 180.0 * u[0], "lon1": -180.0 + 360.0 * u[1], "lat2": -90.0 + 180.0 * u[2], "lon2": -180.0 + 360.0 * u[3],
            "ell": S.u_ellipsoid(u[4], u[5], 280.0, 320.0), "pair": "fill", "defaults": False, "num": "float"}


SUBCHECKS = [
    SubCheck("arrival_and_reverse_azimuth", check_arrival, strategy=pairs(), nontrivial=_nt, classes=_classes,
             quick=3000, thorough=300000, shards_quick=4, shards_thorough=16,
             seq_groups=[["ell"], ["lat1", "lon1"], ["lat2", "lon2", "pair"]],
             fresh=(8, 64, 3), rule="exact direct geodesic with (distance, azimuth1to2) arrives within 2 mm of point 2; azimuth2to1 = arrival azimuth + 180"),
    SubCheck("angle_classes", check_angle_classes, strategy=kind_pairs, nontrivial=_nt, classes=_classes, quick=1500, thorough=100000,
             shards_quick=2, shards_thorough=8, rule="vincinv with the five angle classes == vincinv with their .dec() values (exact)"),
    SubCheck("swap_symmetry", check_swap, strategy=pairs(), nontrivial=_nt, classes=_classes,
             quick=3000, thorough=300000, shards_quick=3, shards_thorough=12,
             rule="vincinv(p2, p1) = (same distance within 1 mm, azimuths exchanged within 1 mm at the far end)"),
    SubCheck("longitude_shift", check_shift, strategy=shifted_pairs(), nontrivial=_nt, classes=_classes,
             quick=3000, thorough=300000, shards_quick=3, shards_thorough=12,
             rule="adding a common offset (uniform in [-360, 360], and exactly +-360 / +-180) to both longitudes changes nothing beyond 1 mm"),
    SubCheck("axis_sweeps", check_arrival, enumerate=S.sweeps(505, _sweep_lines, 8000, 160000), nontrivial=_nt, classes=_classes,
             shards_quick=12, shards_thorough=16,
             rule="stratified sweeps: the second point along a meridian and around a parallel, the first along its meridian (8 000 / 160 000 "
                  "lattice points per line, 5 lines, seeded), judged like arrival_and_reverse_azimuth"),
    SubCheck("quasi_random_fill", check_arrival, enumerate=S.fill(515, 6, _fill_build, 40000, 800000), nontrivial=_nt, classes=_classes,
             shards_quick=12, shards_thorough=16,
             rule="low-discrepancy fill of both points (latitude, longitude uniform) x ellipsoid: 40 000 / 800 000 pairs (beyond 178 deg discarded)"),
    SubCheck("near_fill", check_arrival, enumerate=S.fill(517, 6, _near_fill, 30000, 600000), nontrivial=_nt, classes=_classes,
             shards_quick=12, shards_thorough=16,
             rule="low-discrepancy fill of first point x bearing x separation (log-uniform 0.1 mm .. 1 100 km) x ellipsoid: 30 000 / 600 000 pairs"),
    SubCheck("near_shift_fill", check_shift, enumerate=S.fill(518, 6, _near_shift_fill, 20000, 400000), nontrivial=_nt, classes=_classes,
             shards_quick=8, shards_thorough=16,
             rule="the same kind of fill through the common-longitude-offset relation (+-360, +-180, uniform offsets)"),
    SubCheck("swap_fill", check_swap, enumerate=S.fill(516, 6, _fill_build, 20000, 400000), nontrivial=_nt, classes=_classes,
             shards_quick=8, shards_thorough=16, rule="the same fill (another seeded point set) through the swap symmetry"),
]
