"""C09 Library calls are pure: no hidden state, no mutation of constants or arguments."""
import copy
import sys
import threading

import numpy as np
import hypothesis
from hypothesis import strategies as st, settings, HealthCheck, Phase
from hypothesis.stateful import RuleBasedStateMachine, rule, invariant, precondition, run_state_machine_as_test

from .. import repo, core, purity as P, zygote, sched
from ..core import SubCheck, Fail, Discard, HarnessError, Stats, jsonable

RULE = ("histories of 1..50 calls drawn from ~60 public-API entry points (conversions incl. date helpers and module-level angle "
        "functions with caller arrays, geodesics incl. grid versions with the second point in a neighbouring zone, "
        "statistics, survey, 7/14-parameter transformations on sets with uncertainties in both directions, MGA and ATRF wrappers, "
        "catalogue algebra, caller-made parameter sets and ellipsoids, coordinate and angle objects incl. ones whose last field was "
        "rounded up to 60, covariances symmetric to rounding only, NTv2 files) with valid generated arguments; rules: new call, repeat an earlier "
        "call, re-run the last calls split over 2..8 threads; non-trivial = history with at least one repeated call after at "
        "least one time-dependent or covariance call; distinct = distinct history")
ASSUMPTIONS = ["write barrier: __setattr__ of Ellipsoid / Projection / Transformation / TransformationSD is replaced from the harness "
               "after import, so every write to a catalogue object (also transient or same-value) is seen; same-value writes are "
               "counted as 'benign rewrite', not reported",
               "history-free reference: every call is also evaluated in a forked child of a fresh interpreter that has made no "
               "library call (gvp/zygote.py); the in-history result must be bit-identical to it",
               "concurrency: decided by 'no write to shared state at all' (barrier + snapshot), by free-running threaded re-runs (the "
               "harness does not own that schedule: corroboration) and by the owned_schedules sub-checks, where the harness does own "
               "the schedule at the granularity of the library's source lines (sys.monitoring, CPython >= 3.12; a race inside one "
               "source line, or inside C code, is not reachable)",
               "bit patterns: float.hex, ndarray.tobytes, recursively through tuples and objects",
               "'modifies an object' is read as 'changes what the caller can observe of it': objects are compared by their public "
               "attributes and public properties; a private (underscore) attribute the library adds to an object - a memo that is a pure "
               "function of the public fields - is counted, not reported; results that such hidden state changes are caught as results"]

_Z = []


def _setup():
    import warnings
    warnings.simplefilter("ignore")
    for m in ("constants", "angles", "convert", "geodesy", "statistics", "survey", "transform", "coord"):
        repo.mod("geodepy." + m)
    P.take_pristine()
    P.install_barrier()
    import os
    if _Z and _Z[0].pid != os.getpid():
        del _Z[:]           # inherited through fork: the pipes belong to the parent's evaluator
    if not _Z:
        _Z.append(zygote.Client())


class Executor(object):
    """Runs calls one by one and checks the invariants of the property after each."""

    def __init__(self):
        _setup()
        P.restore_constants()
        P.BARRIER.log[:] = []
        P.GRIDS.clear()
        P.GRID_CANON.clear()
        self.memo = {}
        self.done = []
        self.held = []          # results the caller still holds: (call name, object, canonical form when it was returned)

    def _watch(self, args):
        out = []
        for i, a in enumerate(args):
            # (shipped constants are covered by the write barrier and the snapshot; everything the caller made is watched here)
            if isinstance(a, (np.ndarray, list)) or (hasattr(a, "__dict__") and id(a) not in P.BARRIER.ids):
                out.append((i, a, P.canon(a)))
            if isinstance(a, np.ndarray) and isinstance(a.base, np.ndarray):
                out.append((i, a.base, P.canon(a.base)))        # a view: the array the caller cut it from is the caller's too
        return out

    def run(self, call, reference=True):
        try:
            fn, args = P.build_args(call)
        except Discard:
            return None      # an argument object could not be constructed (another property's business)
        watched = self._watch(args)
        # objects the caller keeps between calls (grid files read once) are the caller's as well
        raw = None
        try:
            raw = fn(*args)
            res = ["ok", P.canon(raw)]
        except Exception as e:   # noqa: an exception is a result too; it must be the same with and without history
            res = ["exc", type(e).__name__, str(e)[:200]]
        # (c') results returned earlier still belong to the caller: a later call must not change them
        for name0, obj0, canon0 in self.held:
            if P.canon(obj0) != canon0:
                raise Fail("a result returned by %s was changed by a later call (%s)" % (name0, call["fn"]), expected=canon0,
                           observed=P.canon(obj0), bucket="result aliased " + name0)
        if raw is not None and not isinstance(raw, (int, float, str, bool)):
            self.held.append((call["fn"], raw, res[1]))
            del self.held[:-8]
        # (c) arguments untouched
        for i, a, before in watched:
            if P.canon(a) != before:
                raise Fail("%s modified an argument supplied by the caller" % call["fn"], expected=before,
                           observed={"arg": i, "after": P.canon(a)}, bucket="argument mutated by " + call["fn"])
        # (c'') objects the caller keeps between calls (a grid file read once): still what the reader returned
        for k, gobj in sorted(P.GRIDS.items()):
            if P.canon(gobj) != P.GRID_CANON.get(k):
                raise Fail("%s modified a grid object the caller keeps" % call["fn"], expected=P.GRID_CANON.get(k), observed=P.canon(gobj),
                           bucket="kept object mutated by " + call["fn"])
        # (a) + (b) constants untouched
        if P.BARRIER.log:
            w = P.BARRIER.log[0]
            raise Fail("%s wrote to the shipped constant %s.%s" % (call["fn"], w[0], w[1]), expected={"old": w[2]}, observed={"new": w[3]},
                       bucket="constant written by " + call["fn"])
        d = P.snapshot_diff()
        if d:
            raise Fail("%s changed a module-level constant" % call["fn"], observed=d[:3], bucket="constant changed by " + call["fn"])
        # (d) same result as the first evaluation of the same call in this history
        key = repr(jsonable(call))
        if key in self.memo:
            if self.memo[key] != res:
                raise Fail("%s returned a different result when repeated in the same process" % call["fn"],
                           expected=self.memo[key], observed=res, bucket="not repeatable " + call["fn"])
        else:
            self.memo[key] = res
        # (e) same result as in a process that has made no other call
        if reference:
            ref = _Z[0].ask(call)
            if ref != res:
                raise Fail("%s returned a result that depends on the calls made before it (differs from a fresh process)" % call["fn"],
                           expected={"fresh_process": ref}, observed={"in_history": res}, bucket="history dependent " + call["fn"])
        self.done.append(call)
        return res

    def threaded(self, m, nthreads):
        calls = self.done[-m:]
        if not calls:
            return
        want = [self.memo[repr(jsonable(c))] for c in calls]
        got = [None] * len(calls)
        errs = []

        def work(k):
            try:
                for i in range(k, len(calls), nthreads):
                    fn, args = P.build_args(calls[i])
                    try:
                        got[i] = ["ok", P.canon(fn(*args))]
                    except Exception as e:   # noqa
                        got[i] = ["exc", type(e).__name__, str(e)[:200]]
            except Exception as e:  # noqa
                errs.append(repr(e))
        old = sys.getswitchinterval()
        sys.setswitchinterval(1e-6)
        try:
            ts = [threading.Thread(target=work, args=(k,)) for k in range(nthreads)]
            for t in ts:
                t.start()
            for t in ts:
                t.join()
        finally:
            sys.setswitchinterval(old)
        if errs:
            raise HarnessError("threaded re-run failed in the harness: %s" % errs[0])
        for c, w, g in zip(calls, want, got):
            if w != g:
                raise Fail("%s returned a different result when run concurrently in %d threads" % (c["fn"], nthreads), expected=w,
                           observed=g, bucket="not thread safe " + c["fn"])
        if P.BARRIER.log:
            w = P.BARRIER.log[0]
            raise Fail("a shipped constant (%s.%s) was written during the threaded re-run" % (w[0], w[1]), observed=w,
                       bucket="constant written (threads)")
        d = P.snapshot_diff()
        if d:
            raise Fail("a module-level constant changed during the threaded re-run", observed=d[:3], bucket="constant changed (threads)")


def check_history(case):
    """Replayable form: a list of steps {"call": ...} | {"repeat": i} | {"threads": [m, n]}."""
    ex = Executor()
    try:
        for s in case["history"]:
            if "call" in s:
                ex.run(s["call"])
            elif "calls" in s:
                for c in s["calls"]:
                    ex.run(c)
            elif "repeat" in s:
                if ex.done:
                    ex.run(ex.done[s["repeat"] % len(ex.done)])
            elif "threads" in s:
                ex.threaded(s["threads"][0], s["threads"][1])
    finally:
        P.restore_constants()
        P.BARRIER.log[:] = []


@st.composite
def _step_s(draw):
    # the kind is drawn first: one_of over the mapped call strategies would be flattened into their ~55 branches and
    # leave the repeat / threads steps with 3 chances in 220
    kind = draw(st.sampled_from(["call", "call", "calls", "calls", "repeat", "repeat", "threads"]))
    if kind == "call":
        return {"call": draw(P.call_strategy())}
    if kind == "calls":
        return {"calls": draw(P.call_strategy(families=True))}
    if kind == "repeat":
        return {"repeat": draw(st.integers(0, 49))}
    return {"threads": [draw(st.one_of(st.integers(1, 8), st.just(50))), draw(st.integers(2, 8))]}      # the last few calls, or the whole sequence


_step = _step_s()
history_cases = st.one_of(st.lists(_step, min_size=1, max_size=50), st.lists(_step, min_size=10, max_size=50),
                          st.lists(_step, min_size=20, max_size=50)).map(lambda h: {"history": h})


def _nt(case):
    seen_tc = False
    for s in case["history"]:
        for c in ([s["call"]] if "call" in s else s.get("calls", [])):
            if P.is_time_or_cov(c):
                seen_tc = True
        if ("repeat" in s or "threads" in s) and seen_tc:
            return True
    return False


def _classes(case):
    h = case["history"]
    out = ["len:%s" % ("1-5" if len(h) <= 5 else ("6-20" if len(h) <= 20 else "21-50"))]
    if any("threads" in s for s in h):
        out.append("threaded")
    if any("repeat" in s for s in h):
        out.append("repeat")
    calls = [c for s in h for c in ([s["call"]] if "call" in s else s.get("calls", []))]
    out += sorted({"fn:" + c["fn"] for c in calls})
    if any("calls" in s for s in h):
        out.append("family")
    out += _rep_classes(calls)
    return out


def _rep_classes(calls):
    """How the caller's data is represented in the calls (the representations a callee could modify in place)."""
    out = set()
    for c in calls:
        a = c["a"]
        if a.get("zd"):
            out.add("rep:numbers as 0-d arrays")
        if a.get("arr") in ("view", "f"):
            out.add("rep:covariance array %s" % ("view of a larger array" if a["arr"] == "view" else "Fortran-ordered"))
        if a.get("cont") in ("tuple", "array", "column"):
            out.add("rep:sequence as %s" % a["cont"])
        if a.get("layout"):
            out.add("rep:vector layout " + a["layout"])
        if a.get("kind", "float") != "float" or c["fn"] in ("angle_op", "angle_rounded", "coord_geo"):
            out.add("rep:angle / coordinate objects")
    return sorted(out)


# ------------------------------------------------------------------------------------------------ the state machine

class _MachineViolation(Exception):
    pass


def _machine_class(sink):
    class PurityMachine(RuleBasedStateMachine):
        def __init__(self):
            super().__init__()
            self.ex = Executor()
            self.history = []

        def _do(self, step, thunk):
            self.history.append(step)
            try:
                thunk()
            except Fail as f:
                sink["last"] = ({"history": list(self.history)}, f)
                raise _MachineViolation(f.bucket)

        @rule(call=P.call_strategy())
        def new_call(self, call):
            self._do({"call": call}, lambda: self.ex.run(call))

        @rule(calls=P.call_strategy(families=True))
        def call_family(self, calls):
            def go():
                for c in calls:
                    self.ex.run(c)
            self._do({"calls": calls}, go)

        @precondition(lambda self: len(self.ex.done) > 0)
        @rule(i=st.integers(0, 49))
        def repeat_call(self, i):
            self._do({"repeat": i}, lambda: self.ex.run(self.ex.done[i % len(self.ex.done)]))

        @precondition(lambda self: len(self.ex.done) > 0)
        @rule(m=st.one_of(st.integers(1, 8), st.just(50)), n=st.integers(2, 8))
        def threaded_rerun(self, m, n):
            self._do({"threads": [m, n]}, lambda: self.ex.threaded(m, n))

        @invariant()
        def constants_untouched(self):
            if P.BARRIER.log or P.snapshot_diff():
                f = Fail("a shipped constant was modified", observed=(P.BARRIER.log[:1], P.snapshot_diff()[:1]), bucket="constant modified")
                sink["last"] = ({"history": list(self.history)}, f)
                raise _MachineViolation(f.bucket)

        def teardown(self):
            sink["histories"].append({"history": list(self.history)})
            P.restore_constants()
            P.BARRIER.log[:] = []
    return PurityMachine


def run_machine(sc, n, seed, tier):
    """custom runner: Hypothesis' rule-based state machine; every finished history is recorded for the evidence."""
    sink = {"last": None, "histories": []}
    M = _machine_class(sink)
    stats = Stats()
    failures = []
    harness = None
    try:
        import hypothesis.internal.conjecture.engine as _eng
        _eng.MAX_SHRINKING_SECONDS = 60
    except Exception:
        pass
    stg = settings(max_examples=max(1, n), stateful_step_count=50, deadline=None, database=None, derandomize=False,
                   report_multiple_bugs=False, verbosity=hypothesis.Verbosity.quiet, print_blob=False,
                   suppress_health_check=list(HealthCheck), phases=[Phase.generate, Phase.shrink])
    try:
        run_state_machine_as_test(hypothesis.seed(seed)(M), settings=stg)
    except _MachineViolation:
        case, f = sink["last"]
        failures.append({"subcheck": sc.name, "case": jsonable(case), "what": f.what, "bucket": f.bucket,
                         "expected": jsonable(f.expected), "observed": jsonable(f.observed), "history": None})
    except HarnessError as e:
        harness = str(e)
    except hypothesis.errors.Flaky as e:
        if sink["last"] is not None:
            case, f = sink["last"]
            failures.append({"subcheck": sc.name, "case": jsonable(case), "what": f.what + " [not reproducible on re-execution: hidden state]",
                             "bucket": f.bucket, "expected": jsonable(f.expected), "observed": jsonable(f.observed), "history": None})
        else:
            harness = "hypothesis: Flaky: %s" % e
    except hypothesis.errors.HypothesisException as e:
        harness = "hypothesis: %s: %s" % (type(e).__name__, e)
    for h in sink["histories"]:
        stats.record(sc, h)
    stats.metrics = {"benign_rewrites": float(P.BARRIER.benign), "private_attribute_writes": float(P.BARRIER.private)}
    return stats, failures, harness


# ------------------------------------------------------------------------------------------------ owned schedules

def _res(raw_or_exc):
    kind, v = raw_or_exc
    if kind == "ok":
        return ["ok", P.canon(v)]
    return ["exc", type(v).__name__, str(v)[:200]]


def _plans(lines, budget, phase):
    """Schedules for calls whose solo runs take lines[i] library lines: (rotation, quanta, label)."""
    n = len(lines)
    out = [(0, [q], "alternate/%d" % q) for q in (1, 2, 3, 7)]
    per = max(4, (budget - len(out)) // n)
    for r in range(n):                       # every call takes the role of the pre-empted one
        m = lines[r]
        if m <= 0:
            continue
        stride = max(1, -(-m // per))
        ks = list(range((phase % stride), m, stride))
        out += [(r, [k, sched.INF], "preempt-once") for k in ks]
        # two pre-emptions: the first call is stopped at k, the second at k2 of its own lines, then the first finishes
        m2 = lines[(r + 1) % n]
        if m2 > 1 and ks:
            for j, k in enumerate(ks[:: max(1, len(ks) // 6)]):
                out.append((r, [k, 1 + (phase + 7 * j) % max(1, m2 - 1), sched.INF], "preempt-twice"))
    return out


def check_schedules(case):
    """case = {"calls": [call, call(, call)]}: the calls run concurrently under every plan of _plans(); each must return what it
    returns in a process that has made no other call, and the constants / arguments invariants must hold."""
    if not sched.available():
        raise Discard()
    budget = int(case.get("budget", 60))
    ex = Executor()
    try:
        calls = case["calls"]
        want = []
        built = []
        for c in calls:
            try:
                built.append(P.build_args(c))
            except Discard:
                raise Discard()
            want.append(_Z[0].ask(c))
        lines = []
        for (fn, args), w, c in zip(built, want, calls):
            n, r = sched.count_lines(lambda fn=fn, args=args: fn(*args))
            lines.append(n)
            if _res(r) != w:
                raise Fail("%s returned a result that differs from a fresh process" % c["fn"], expected={"fresh_process": w},
                           observed={"here": _res(r)}, bucket="history dependent " + c["fn"])
        core.metric("library lines per call", max(lines))
        plans = _plans(lines, budget, core.case_hash(case) % 9973)
        if sum(lines) + 4 <= budget:
            core.metric("cases with every single pre-emption point", 1)
        core.metric("schedules per case", len(plans))
        nsw = 0
        nplan = 0
        for rot, quanta, label in plans:
            order = list(range(rot, len(calls))) + list(range(rot))
            fresh = [P.build_args(calls[i]) for i in order]
            if case.get("shared"):
                # the threads are handed the very same argument objects (one array, one angle object, one caller-made set read by
                # two threads): a function that modifies an argument and restores it before returning is invisible to every
                # sequential comparison, and visible here
                fresh = [fresh[0]] * len(order)
            watched = [ex._watch(a) for _, a in fresh]
            P.BARRIER.log[:] = []
            try:
                results, info = sched.run([(lambda fn=fn, args=args: fn(*args)) for fn, args in fresh], quanta, timeout=3.0)
            except sched.Stuck:
                # a pre-empted thread held something the next one needed (a lock of the library's own, say): this schedule cannot
                # happen; the case's remaining plans are left out rather than waited for
                core.metric("cases with an unrealisable schedule", 1)
                break
            nsw += info["switches"]
            plan = {"order": order, "quanta": [q if q < sched.INF else "rest" for q in quanta], "kind": label}
            for pos, i in enumerate(order):
                g = _res(results[pos])
                if g != want[i]:
                    raise Fail("%s returned a different result when interleaved with %s at library-line granularity"
                               % (calls[i]["fn"], ", ".join(calls[j]["fn"] for j in order if j != i)),
                               expected=want[i], observed={"result": g, "schedule": plan}, bucket="not thread safe " + calls[i]["fn"])
                for k, a, before in watched[pos]:
                    if P.canon(a) != before:
                        raise Fail("%s modified an argument supplied by the caller (interleaved run)" % calls[i]["fn"], expected=before,
                                   observed={"arg": k, "after": P.canon(a), "schedule": plan}, bucket="argument mutated by " + calls[i]["fn"])
            if P.BARRIER.log:
                w = P.BARRIER.log[0]
                raise Fail("a shipped constant (%s.%s) was written during an interleaved run" % (w[0], w[1]),
                           observed={"write": w, "schedule": plan}, bucket="constant written (schedules)")
            d = P.snapshot_diff()
            if d:
                raise Fail("a module-level constant changed during an interleaved run", observed={"diff": d[:3], "schedule": plan},
                           bucket="constant changed (schedules)")
            # state left behind by an interleaving: each call, run alone afterwards, must still give its reference result
            nplan += 1
            if sum(lines) < 400 or nplan % 8 == 0 or nplan == len(plans):
                for i, c in enumerate(calls):
                    fn, args = P.build_args(c)
                    try:
                        g = ["ok", P.canon(fn(*args))]
                    except Exception as e:     # noqa
                        g = ["exc", type(e).__name__, str(e)[:200]]
                    if g != want[i]:
                        raise Fail("%s, run alone AFTER an interleaved run, returned a different result (state left behind by the interleaving)"
                                   % c["fn"], expected=want[i], observed={"result": g, "after_schedule": plan}, bucket="state left behind " + c["fn"])
        core.metric("thread switches per case", nsw)
    finally:
        P.restore_constants()
        P.BARRIER.log[:] = []


def _schedule_cases(budget, shared_only=False):
    fam = P.call_strategy(families=True).map(lambda cs: list(cs)[:3])
    one = P.call_strategy()
    pair = st.tuples(one, one).map(list)
    twice = one.map(lambda c: [c, copy.deepcopy(c)])
    plain = st.one_of(fam, fam, pair, twice).filter(lambda cs: len(cs) >= 2).map(lambda cs: {"calls": cs, "budget": budget})
    if not shared_only:
        return plain
    return one.filter(_has_caller_object).map(lambda c: {"calls": [c, copy.deepcopy(c)], "budget": budget, "shared": True})


def _has_caller_object(call):
    """Does the call hand the library something mutable that the caller made (an array, a list, an angle / coordinate / grid
    object, a parameter set or ellipsoid of its own)?"""
    a = call["a"]
    if call["fn"] in ("angle_op", "angle_rounded", "coord_geo", "ntv2_obj", "angle_fn_v", "precise_inst_ht", "vcv_cart2local", "vcv_local2cart",
                      "error_ellipse", "relative_error"):
        return True
    if a.get("vcv") is not None or a.get("kind", "float") != "float":
        return True
    return isinstance(a.get("ell"), dict) or (isinstance(a.get("trans"), dict) and "p" in a["trans"])


def _sample(strategy, k, seed):
    """k values of a strategy, drawn by Hypothesis itself under a fixed seed (a pure function of the strategy and the seed)."""
    from hypothesis import given
    got = []

    def body(v):
        got.append(v)
    stg = settings(max_examples=k, database=None, deadline=None, derandomize=False, phases=[Phase.generate], verbosity=hypothesis.Verbosity.quiet,
                   suppress_health_check=list(HealthCheck), print_blob=False)
    hypothesis.seed(seed)(stg(given(strategy)(body)))()
    return got[:k]


def enumerate_functions(tier, seed, shard, nshards):
    """Every entry of the catalogue's function axis (P.function_axis: each module-level angle function, each operator / method of
    each angle class, each coordinate-object operation, each other entry point) gets pair cases of its own in every run."""
    _setup()
    k = 3 if tier == "quick" else 10
    for idx, (label, strat) in enumerate(P.function_axis()):
        if idx % nshards != shard:
            continue
        calls = _sample(strat, k, seed * 7919 + idx)
        if len(calls) < 2:
            continue
        lab = label or calls[0]["fn"]
        pairs = [(calls[-1], calls[-2])] if tier == "quick" else [(calls[i], calls[i + 1]) for i in range(1, len(calls) - 1, 2)]
        for a, b in pairs:
            yield {"calls": [a, b], "budget": 40 if tier == "quick" else 100, "axis": lab}
        yield {"calls": [calls[-1], copy.deepcopy(calls[-1])], "budget": 24, "axis": lab, "shared": _has_caller_object(calls[-1])}


def enumerate_histories(tier, seed, shard, nshards):
    """Sequential histories along the function axis: per entry two calls with different arguments, then, for every number among
    its arguments that may be zero, the call with +0.0 and with -0.0 in that place (both orders over the run), a repeat and a
    threaded re-run - so that every library function meets the argument pairs that compare equal without being the same."""
    _setup()
    k = 2 if tier == "quick" else 6
    for idx, (label, strat) in enumerate(P.function_axis()):
        if idx % nshards != shard:
            continue
        calls = _sample(strat, k + 1, seed * 104729 + idx)[1:]
        if not calls:
            continue
        for j, base in enumerate(calls):
            steps = [{"call": c} for c in calls[j:j + 2]]
            keys = [q for q in P._SZ_KEYS if isinstance(base["a"].get(q), float)]
            for n, q in enumerate(keys[:4]):
                zs = [0.0, -0.0] if (idx + n + j) % 2 == 0 else [-0.0, 0.0]
                steps += [{"call": {"fn": base["fn"], "a": dict(base["a"], **{q: z})}} for z in zs]
            steps += [{"repeat": 0}, {"threads": [4, 2]}]
            yield {"history": steps, "axis": label or base["fn"]}
            if tier == "quick":
                break


def _classes_sched(case):
    cs = case["calls"]
    out = ["threads:%d" % len(cs)]
    if case.get("axis"):
        out.append("axis:" + case["axis"].split(":")[0])
    names = sorted({c["fn"] for c in cs})
    out.append("same entry point" if len(names) == 1 else "different entry points")
    if all(repr(jsonable(c)) == repr(jsonable(cs[0])) for c in cs):
        out.append("identical calls")
    if case.get("shared"):
        out.append("argument objects shared between the threads")
    out += ["fn:" + n for n in names]
    out += _rep_classes(cs)
    return out


# the environment pass (runner: environments) repeats the history sub-checks only: the owned schedules are about interleavings,
# which the interpreter flags / variables of those environments do not touch
ENV_ONLY = ["generated_histories", "histories_every_function"]
ENV_ENUM_LIMIT = (12, 200)

SUBCHECKS = [
    SubCheck("state_machine", check_history, strategy=None, nontrivial=_nt, classes=_classes, quick=60, thorough=3000,
             shards_quick=12, shards_thorough=48, setup=_setup,
             rule="Hypothesis RuleBasedStateMachine (rules: new call / repeat an earlier call / threaded re-run of the last calls); after "
                  "every step: constants snapshot + write-barrier log, arguments deep-equal, result == first evaluation == evaluation in "
                  "a process without history"),
    SubCheck("generated_histories", check_history, strategy=history_cases, nontrivial=_nt, classes=_classes, quick=96, thorough=4000,
             shards_quick=16, shards_thorough=64, setup=_setup,
             rule="the same invariants over histories drawn as lists (length 1..50) so that every history is a plain replayable value"),
]
SUBCHECKS += [
    SubCheck("histories_every_function", check_history, enumerate=enumerate_histories, nontrivial=lambda c: True,
             classes=lambda c: ["axis:" + c["axis"].split(":")[0]] + _classes(c), shards_quick=16, shards_thorough=32, setup=_setup,
             rule="enumeration along the catalogue's function axis (about 290 entries): per entry a short sequential history - two calls, "
                  "then the same call with +0.0 and with -0.0 in each argument that may be zero (equal as dictionary keys, different as "
                  "numbers), a repeat and a threaded re-run - under the invariants of the other history sub-checks"),
    SubCheck("owned_schedules", check_schedules, strategy=_schedule_cases(60), nontrivial=lambda c: True, classes=_classes_sched,
             quick=48, thorough=1600, shards_quick=8, shards_thorough=48, setup=_setup,
             rule="2..3 calls (a family of one entry point sharing part of its arguments / two arbitrary calls / the same call twice) run in "
                  "one thread each under a schedule the harness owns (sys.monitoring LINE events of the library's files: a thread "
                  "loses the baton only where the plan says): alternation after every 1, 2, 3, 7 library lines, and every call pre-empted "
                  "once (and twice) at a stratified sample of its library lines - about 60 schedules per case; each result bit-identical "
                  "to a process that made no other call; constants, write barrier and arguments as in the other sub-checks"),
    SubCheck("owned_schedules_shared_arguments", check_schedules, strategy=_schedule_cases(24, shared_only=True), nontrivial=lambda c: True,
             classes=_classes_sched, quick=96, thorough=2400, shards_quick=8, shards_thorough=48, setup=_setup,
             rule="one call that is handed something the caller made (array, list, angle / coordinate / grid object, own parameter set or "
                  "ellipsoid) runs in two threads on the VERY SAME argument objects under about 24 owned schedules: a function that modifies "
                  "an argument and restores it before returning passes every sequential comparison and fails here"),
    SubCheck("owned_schedules_every_function", check_schedules, enumerate=enumerate_functions, nontrivial=lambda c: True, classes=_classes_sched,
             shards_quick=16, shards_thorough=48, setup=_setup,
             rule="enumeration along the catalogue's FUNCTION axis (each of the 21 module-level angle functions, 29 operators / methods x 5 angle "
                  "classes, vectorised functions x array layouts, coordinate-object operations, and every other entry point: about 290 entries): "
                  "per entry one pair of calls with different arguments and one call twice (on shared argument objects where the caller made "
                  "any), arguments drawn by Hypothesis under the run's seed; 24-40 owned schedules each (100 and four pairs per entry in the thorough tier); after "
                  "interleaved runs every call is run alone again and must still give its reference result"),
    SubCheck("owned_schedules_complete", check_schedules, strategy=_schedule_cases(1500), nontrivial=lambda c: True, classes=_classes_sched,
             quick=18, thorough=480, shards_quick=6, shards_thorough=48, setup=_setup,
             rule="the same with up to 1500 schedules per case: EVERY single pre-emption point of every call whose solo run takes fewer "
                  "library lines than that (pre-emption-bounded enumeration, bound 1, complete per case at library-line granularity; "
                  "class 'every pre-emption point'), a stratified sample otherwise, plus a sample of double pre-emptions"),
]
SUBCHECKS[0].custom = run_machine
