"""C11 The shipped transformation catalogue is labelled, reversible and self-consistent."""
import datetime
import re

from hypothesis import strategies as st

from .. import repo, strategies as S, trcases as TR
from ..core import SubCheck, Fail, Discard, metric, HarnessError, pub_attrs

RULE = ("complete enumeration of the Transformation constants of geodepy.constants: names vs labels, forward/reverse pairs, "
        "re-referencing to every catalogue epoch, all ordered triples (A->B, B->C, A->C) of ITRF sets at every catalogue epoch; "
        "Hypothesis tuples for the IERS unit conversion; every enumerated item is non-trivial, distinct = the item itself")
ASSUMPTIONS = ["naming convention documented in constants.py: <from>_to_<to>[_suffix], labels = upper-cased frame names",
               "a chain is compared with the direct set parameter by parameter (sum of the two sets brought to the common epoch "
               "with the library's own epoch re-referencing): the published sets are small, so products of parameters are < 1e-9 m",
               "published rounding: 0.15 mm, 0.015 ppb, 0.015 mas and the same per year, times the float-fuzz factor 1.0005"]

TOL_T = 0.15e-3          # m
TOL_S = 0.015e-3         # ppm  (0.015 ppb)
TOL_R = 0.015e-3         # arcsec (0.015 mas)
FUZZ = 1.0005
ALL14 = TR.P7 + TR.R7


def _consts():
    c = repo.mod("geodepy.constants")
    return c, {n: getattr(c, n) for n in TR.shipped_names()}


def _labels_from_name(name):
    m = re.match(r"^([a-z]+\d+)_to_([a-z]+\d+)(?:_([a-z]+))?$", name)
    if not m:
        return None
    return m.group(1).upper(), m.group(2).upper(), m.group(3)


def check_item(case):
    kind = case["kind"]
    c, T = _consts()
    if kind == "count":
        if len(T) < 120:        # (additional constants are simply checked as well; a missing one cannot be)
            raise Fail("the catalogue has fewer than the 120 Transformation constants the statement names", expected=120, observed=len(T))
        return
    if kind == "label":
        name = case["name"]
        tr = T[name]
        lab = _labels_from_name(name)
        if lab is None:
            raise Fail("constant name does not follow <from>_to_<to>[_suffix]", observed=name)
        if (tr.from_datum, tr.to_datum) != (lab[0], lab[1]):
            raise Fail("transformation constant is not labelled with the frames its name states",
                       expected={"from": lab[0], "to": lab[1]}, observed={"name": name, "from": tr.from_datum, "to": tr.to_datum})
        return
    if kind == "pair":
        a, b = T[case["fwd"]], T[case["rev"]]
        for k in ALL14:
            if getattr(a, k) != -getattr(b, k):
                raise Fail("reverse-direction constant does not carry exactly the negated parameters of its partner",
                           expected={k: -getattr(a, k)}, observed={"pair": (case["fwd"], case["rev"]), k: getattr(b, k)})
        if a.ref_epoch != b.ref_epoch:
            raise Fail("forward / reverse partners have different reference epochs", expected=a.ref_epoch,
                       observed={"pair": (case["fwd"], case["rev"]), "epoch": b.ref_epoch})
        if (a.from_datum, a.to_datum) != (b.to_datum, b.from_datum):
            raise Fail("forward / reverse partners do not have swapped labels", expected=(a.to_datum, a.from_datum),
                       observed=(b.from_datum, b.to_datum))
        sa, sb = TR.sd_of(a), TR.sd_of(b)
        if sa != sb:
            raise Fail("forward / reverse partners carry different parameter uncertainties", expected=sa, observed=sb)
        return
    if kind == "rebase":
        tr = T[case["name"]]
        d = datetime.date(*case["epoch"])
        before = {k: getattr(tr, k) for k in ALL14}
        sd_before = pub_attrs(tr.tf_sd) if tr.tf_sd is not None else None
        out = tr + d
        sd_after = pub_attrs(tr.tf_sd) if tr.tf_sd is not None else None
        if sd_after != sd_before:
            raise Fail("re-referencing modified the catalogue's parameter uncertainties", expected=sd_before,
                       observed={"name": case["name"], "epoch": case["epoch"], "tf_sd": sd_after})
        if out is None:
            raise Fail("re-referencing a dated set returned nothing", observed=None)
        if (out.from_datum, out.to_datum) != (tr.from_datum, tr.to_datum):
            raise Fail("re-referencing a set to another epoch changed its direction labels",
                       expected=(tr.from_datum, tr.to_datum), observed={"name": case["name"], "labels": (out.from_datum, out.to_datum)})
        if out.ref_epoch != d:
            raise Fail("re-referenced set does not carry the new epoch", expected=d, observed=out.ref_epoch)
        for k in TR.R7:
            if getattr(out, k) != getattr(tr, k):
                raise Fail("re-referencing a set to another epoch changed a rate", expected={k: getattr(tr, k)},
                           observed={"name": case["name"], "epoch": case["epoch"], k: getattr(out, k)})
        dt = (d - tr.ref_epoch).days / 365.25
        for k, r in zip(TR.P7, TR.R7):
            want = before[k] + before[r] * dt
            if abs(getattr(out, k) - want) > 1e-8:
                raise Fail("re-referenced parameter is not parameter + rate x elapsed Julian years (8 decimals)",
                           expected={k: want}, observed={"name": case["name"], "epoch": case["epoch"], k: getattr(out, k)})
        after = {k: getattr(tr, k) for k in ALL14}
        if after != before:
            raise Fail("re-referencing modified the catalogue constant itself", expected=before, observed=after)
        # a re-referenced set is a set like any other: re-referenced again (back to the catalogue epoch, on to a third epoch, and
        # its reverse on to a third epoch) it still keeps labels and rates and is the catalogue set brought to that epoch
        d3 = d + datetime.timedelta(days=1461)
        for what, src, dd, sgn in (("back to the catalogue epoch", out, tr.ref_epoch, 1.0), ("on to a third epoch", out, d3, 1.0),
                                   ("reversed and on to a third epoch", -out, d3, -1.0)):
            try:
                o2 = src + dd
            except Exception as e:
                raise Fail("re-referencing a set that is itself the result of a re-referencing raised %s: %s" % (type(e).__name__, e),
                           observed={"name": case["name"], "epoch": case["epoch"], "second": what}, bucket="second re-referencing")
            labels = (tr.from_datum, tr.to_datum) if sgn > 0 else (tr.to_datum, tr.from_datum)
            if o2 is None or (o2.from_datum, o2.to_datum) != labels or o2.ref_epoch != dd:
                raise Fail("a second re-referencing (%s) lost the direction labels / the new epoch" % what, expected=(labels, dd),
                           observed=None if o2 is None else (o2.from_datum, o2.to_datum, o2.ref_epoch), bucket="second re-referencing")
            dt2 = (dd - tr.ref_epoch).days / 365.25
            for k, r in zip(TR.P7, TR.R7):
                if getattr(o2, r) != sgn * before[r]:
                    raise Fail("a second re-referencing (%s) changed a rate" % what, expected={r: sgn * before[r]},
                               observed={"name": case["name"], r: getattr(o2, r)}, bucket="second re-referencing")
                want = sgn * (before[k] + before[r] * dt2)
                if abs(getattr(o2, k) - want) > 2e-8 + 1e-8 * abs(before[r]) * 4:
                    raise Fail("a second re-referencing (%s) is not the catalogue set brought to that epoch (8 decimals per step)" % what,
                               expected={k: want}, observed={"name": case["name"], "epoch": case["epoch"], k: getattr(o2, k)},
                               bucket="second re-referencing")
        return
    if kind == "triple":
        ab, bc, ac = T[case["ab"]], T[case["bc"]], T[case["ac"]]
        d = datetime.date(*case["epoch"])
        x, y, z = ab + d, bc + d, ac + d
        for k in ALL14:
            tol = TOL_T if k.endswith(("tx", "ty", "tz")) else (TOL_S if k.endswith("sc") else TOL_R)
            diff = abs(getattr(x, k) + getattr(y, k) - getattr(z, k))
            metric("closure_over_tol", diff / tol)
            if not diff <= tol * FUZZ:
                raise Fail("chained ITRF sets do not equal the direct set within the published rounding",
                           expected={"param": k, "direct": getattr(z, k), "tol": tol},
                           observed={"triple": (case["ab"], case["bc"], case["ac"]), "epoch": case["epoch"],
                                     "chain": getattr(x, k) + getattr(y, k), "diff": diff})
        return
    raise HarnessError("unknown item kind %r" % kind)


def _catalogue_epochs(T):
    return sorted({t.ref_epoch for t in T.values() if isinstance(t.ref_epoch, datetime.date)})


def enumerate_catalogue(tier, seed, shard, nshards):
    c, T = _consts()
    items = [{"kind": "count"}]
    for n in T:
        items.append({"kind": "label", "name": n})
    for n in T:
        lab = _labels_from_name(n)
        if lab is None:
            continue
        f, t, suf = lab
        rev = "%s_to_%s%s" % (t.lower(), f.lower(), "_" + suf if suf else "")
        if rev in T and n < rev:
            items.append({"kind": "pair", "fwd": n, "rev": rev})
            items.append({"kind": "pair", "fwd": rev, "rev": n})
    epochs = _catalogue_epochs(T)
    extra = [datetime.date(1980, 1, 1), datetime.date(2024, 2, 29), datetime.date(2060, 12, 31)]
    for n, t in T.items():
        if isinstance(t.ref_epoch, datetime.date):
            for e in epochs + extra:
                items.append({"kind": "rebase", "name": n, "epoch": [e.year, e.month, e.day]})
    itrf = [n for n in T if re.match(r"^itrf\d+_to_itrf\d+$", n)]
    frames = {}
    for n in itrf:
        a, b = n.split("_to_")
        frames[(a, b)] = n
    for (a, b), ab in sorted(frames.items()):
        for (b2, cc), bc in sorted(frames.items()):
            if b2 != b or cc == a:
                continue
            if (a, cc) in frames:
                for e in epochs:
                    items.append({"kind": "triple", "ab": ab, "bc": bc, "ac": frames[(a, cc)], "epoch": [e.year, e.month, e.day]})
    for i, it in enumerate(items):
        if i % nshards == shard:
            yield it


def check_structure(case):
    """Cardinalities the statement names: 120 constants and 384 ordered ITRF triples."""
    c, T = _consts()
    itrf = [n for n in T if re.match(r"^itrf\d+_to_itrf\d+$", n)]
    frames = {tuple(n.split("_to_")) for n in itrf}
    triples = sum(1 for (a, b) in frames for (b2, cc) in frames if b2 == b and cc != a and (a, cc) in frames)
    if case["what"] == "triples" and triples < 384:
        raise Fail("the catalogue offers fewer than the 384 ordered ITRF triples the statement names (a set was removed or renamed)",
                   expected=384, observed=triples)


def enumerate_structure(tier, seed, shard, nshards):
    for i, w in enumerate(["triples"]):
        if i % nshards == shard:
            yield {"what": w}


def check_iers(case):
    c = repo.mod("geodepy.constants")
    v = case["v"]
    ep = datetime.date(*case["epoch"])
    form = case.get("form", 0)
    if not form:
        tr = c.iers2trans(case["from"], case["to"], ep, *v)
    else:
        # the same entry written with keywords, in an order of the writer's choosing (rates first, rotations first, shuffled, or
        # the seven parameters by position and the rates by keyword)
        import random
        names = list(ALL14)
        kw = dict(zip(names, v))
        npos = 7 if form % 3 == 0 else 0
        keys = names[npos:]
        random.Random(int(form)).shuffle(keys)
        tr = c.iers2trans(case["from"], case["to"], ep, *v[:npos], **{k: kw[k] for k in keys})
    if (tr.from_datum, tr.to_datum, tr.ref_epoch) != (case["from"], case["to"], ep):
        raise Fail("iers2trans does not pass labels / epoch through", expected=(case["from"], case["to"], ep),
                   observed=(tr.from_datum, tr.to_datum, tr.ref_epoch))
    sign = [1, 1, 1, 1, -1, -1, -1] * 2
    for k, x, sg in zip(ALL14, v, sign):
        want = sg * x / 1000.0
        got = getattr(tr, k)
        if not abs(got - want) <= 5e-9 + 1e-15 * abs(want):
            raise Fail("IERS value (mm, ppb, mas) is not stored as metres, ppm, arc-seconds with rotation signs reversed",
                       expected={k: want}, observed={k: got, "iers": x})


iers_cases = st.fixed_dictionaries({
    "v": st.lists(st.one_of(S.floats(-200.0, 200.0), st.sampled_from([0.0, -0.0, 0.1, -24.0, 0.06, 1e-4]),
                            st.integers(-2000, 2000).map(lambda i: i / 10.0)), min_size=14, max_size=14),
    "epoch": st.sampled_from([[2015, 1, 1], [2010, 1, 1], [2000, 1, 1], [1988, 1, 1], [1997, 1, 1]]),
    "form": st.one_of(st.just(0), st.integers(1, 10 ** 6)),
    "from": st.sampled_from(["ITRF2020", "ITRF2014", "ITRFX"]), "to": st.sampled_from(["ITRF2008", "ITRF88", "ITRFY"])})


def _cls(case):
    return ["item:" + case.get("kind", case.get("what", "iers"))]


SUBCHECKS = [
    SubCheck("catalogue_enumeration", check_item, enumerate=enumerate_catalogue, classes=_cls, shards_quick=4, shards_thorough=8,
             exhaustive="both",
             rule="every constant: name => labels; every X_to_Y / Y_to_X pair: negated parameters and rates, same epoch, swapped labels, "
                  "same uncertainties; T + d for every catalogue epoch and 3 others: labels, rates kept, parameters advanced, constant "
                  "untouched; all ordered ITRF triples at every catalogue epoch: chain = direct within the published rounding"),
    SubCheck("catalogue_cardinalities", check_structure, enumerate=enumerate_structure, classes=_cls, shards_quick=1,
             shards_thorough=1, exhaustive="both", rule="the 384 ordered ITRF triples the statement names are all present"),
    SubCheck("iers_unit_conversion", check_iers, strategy=iers_cases, classes=_cls, quick=2000, thorough=100000,
             shards_quick=2, shards_thorough=8,
             rule="random IERS-style 14-tuples: stored = (mm/1000, ppb/1000, -mas/1000, rates likewise) within 5e-9"),
]
