"""C17 NTv2 grid files are read faithfully and interpolated only from the right nodes."""
import math

import numpy as np
import os

from hypothesis import strategies as st

from .. import repo, strategies as S
from ..core import SubCheck, Fail, Discard, HarnessError, metric
from ..oracles import ntv2_file as NF

RULE = ("synthetic .gsb files with 1..4 sub-grids (parent, nested children with finer spacing, disjoint siblings, grandchild or a "
        "second top-level grid; any order in the file), 3..60 rows / columns, increments 30\"..3600\" (integer, dyadic, "
        "milli-arc-second and 4..6-decimal values), extents anywhere (both hemispheres, both longitude signs), four polynomial fields per sub-grid "
        "(linear, bilinear, bi-quadratic, bi-cubic control) exact in float32; ~30 queries per file: nodes, cell edges, interiors, "
        "the outermost ring of cells, 1e-6\"..1\" inside / outside each edge, inside a child, in the parent next to a child, exactly on southern / eastern limits and first-row / first-column nodes; both "
        "methods, forward and reverse; non-trivial = query off the nodes with a non-constant field")
ASSUMPTIONS = ["half-open extents (south and east edges inclusive, north and west exclusive), the NTv2 convention; queries keep a "
               "margin of at least 1e-6\" to every edge of every sub-grid (the degree -> arc-second conversion makes the exact "
               "edge unobservable)",
               "tolerance: 1e-6 + 1e-6 x 1.25 x max over the cell of (|df/du| + |df/dv|) per cell unit, computed analytically",
               "the finest sub-grid is the one with the smallest latitude increment (children are generated strictly finer)"]


def selftest():
    NF.selftest()


# ------------------------------------------------------------------------------------------------ expected values

def _cell_grad(coef, r, c):
    g = 0.0
    for du in (0.0, 0.5, 1.0):
        for dv in (0.0, 0.5, 1.0):
            fu, fv = NF.poly_grad(coef, r + du, c + dv)
            g = max(g, abs(fu) + abs(fv))
    return 1.25 * g


def _bilinear_blend(coef, u, v, nrows, ncols):
    r = min(int(math.floor(u)), nrows - 2)
    c = min(int(math.floor(v)), ncols - 2)
    y, x = u - r, v - c
    n1, n2, n3, n4 = NF.poly(coef, r, c), NF.poly(coef, r, c + 1), NF.poly(coef, r + 1, c), NF.poly(coef, r + 1, c + 1)
    a1, a2, a3 = n2 - n1, n3 - n1, n1 + n4 - n2 - n3
    return n1 + a1 * x + a2 * y + a3 * x * y, 1.25 * (abs(a1) + abs(a2) + 2 * abs(a3)), r, c


def _near_any_edge(subgrids, lat_sec, lonw_sec, margin=1e-6):
    for sg in subgrids:
        s_lat, n_lat, e_long, w_long = NF.extents(sg)
        if min(abs(lat_sec - s_lat), abs(lat_sec - n_lat)) < margin and e_long - 1 <= lonw_sec <= w_long + 1:
            return True
        if min(abs(lonw_sec - e_long), abs(lonw_sec - w_long)) < margin and s_lat - 1 <= lat_sec <= n_lat + 1:
            return True
    return False


def _on_limit(sg, lat_sec, lonw_sec, own, margin=1e-6):
    """Is the point within rounding of a limit of sg where membership is not settled by the lower-limits-inclusive rule?
    For the queried sub-grid itself only its northern / western limits count (its southern / eastern limits are the subject)."""
    s_lat, n_lat, e_long, w_long = NF.extents(sg)
    lims_lat = [n_lat] if own else [s_lat, n_lat]
    lims_lon = [w_long] if own else [e_long, w_long]
    if not own and (lat_sec == s_lat or lonw_sec == e_long):
        lims_lat, lims_lon = [n_lat], [w_long]      # exactly on another sub-grid's lower limit is settled too (inclusive)
    near_lat = any(abs(lat_sec - x) < margin for x in lims_lat) and e_long - 1 <= lonw_sec <= w_long + 1
    near_lon = any(abs(lonw_sec - x) < margin for x in lims_lon) and s_lat - 1 <= lat_sec <= n_lat + 1
    return near_lat or near_lon


def _query_point(subgrids, q):
    sg = subgrids[q["sg"] % len(subgrids)]
    s_lat, n_lat, e_long, w_long = NF.extents(sg)
    nr, nc = sg["nrows"], sg["ncols"]
    kind = q["kind"]
    mu, mv = 2e-6 / sg["lat_inc"], 2e-6 / sg["long_inc"]
    r = int(q["fr"] * (nr - 1)) if nr > 1 else 0
    c = int(q["fc"] * (nc - 1)) if nc > 1 else 0
    r, c = min(r, nr - 2), min(c, nc - 2)
    if kind == "node":
        u, v = float(min(r + q["ir"], nr - 1)), float(min(c + q["ic"], nc - 1))
    elif kind == "edge":
        u, v = (float(r), c + q["fv"]) if q["ir"] else (r + q["fu"], float(c))
    elif kind == "interior" or (kind == "hot" and not sg.get("hot")):
        u, v = r + q["fu"], c + q["fv"]
    elif kind == "hot":
        # within 0.75 cell of the stationary point of the sub-grid's dome / bowl / saddle field
        u, v = sg["hot"][0] + (q["fu"] - 0.5) * 1.5, sg["hot"][1] + (q["fv"] - 0.5) * 1.5
    elif kind == "ring":
        side = q["side"] % 4
        rr = 0 if side == 0 else (nr - 2 if side == 1 else r)
        cc = 0 if side == 2 else (nc - 2 if side == 3 else c)
        u, v = rr + q["fu"], cc + q["fv"]
    elif kind in ("just_inside", "just_outside"):
        d = q["delta"]            # arc-seconds
        sign = 1.0 if kind == "just_inside" else -1.0
        side = q["side"] % 4
        u, v = r + q["fu"], c + q["fv"]
        if side == 0:
            u = sign * d / sg["lat_inc"]
        elif side == 1:
            u = (nr - 1) - sign * d / sg["lat_inc"]
        elif side == 2:
            v = sign * d / sg["long_inc"]
        else:
            v = (nc - 1) - sign * d / sg["long_inc"]
    elif kind == "se_edge":
        # exactly on the southern and / or eastern limit (they belong to the sub-grid): corner, first row / column nodes, edge points
        side = q["side"] % 3
        u = 0.0 if side in (0, 2) else (float(r + q["ir"]) if q["ic"] else r + q["fu"])
        v = 0.0 if side in (1, 2) else (float(c + q["ic"]) if q["ir"] else c + q["fv"])
        return s_lat + u * sg["lat_inc"], e_long + v * sg["long_inc"]
    else:       # far outside everything
        u, v = -5.0 - q["fu"] * 50, -5.0 - q["fv"] * 50
    if kind not in ("just_outside", "far"):
        u = min(max(u, mu), (nr - 1) - mu)
        v = min(max(v, mv), (nc - 1) - mv)
    return s_lat + u * sg["lat_inc"], e_long + v * sg["long_inc"]


def check_file(case):
    nt = repo.mod("geodepy.ntv2reader")
    tf = repo.mod("geodepy.transform")
    subgrids = [NF.sanitise(sg) for sg in case["subgrids"]]
    path = os.path.join(os.getcwd(), "g_%x.gsb" % (abs(hash(repr(case["subgrids"]))) % (1 << 32)))
    NF.write(path, subgrids, gs_type=case["gs_type"], system_f=case["system_f"], system_t=case["system_t"])
    try:
        _check_file(nt, tf, path, subgrids, case)
    finally:
        try:
            os.remove(path)
        except OSError:
            pass


def _check_file(nt, tf, path, subgrids, case):
    g = nt.read_ntv2_file(path)
    # (a) metadata
    want_hdr = {"num_orec": 11, "num_srec": 11, "num_file": len(subgrids), "gs_type": case["gs_type"], "version": "NTv2.0",
                "system_f": case["system_f"], "system_t": case["system_t"], "major_f": 6378160.0, "minor_f": 6356774.719,
                "major_t": 6378137.0, "minor_t": 6356752.314}
    got_hdr = {k: getattr(g, k, None) for k in want_hdr}
    if got_hdr != want_hdr:
        raise Fail("file header does not read back as written", expected=want_hdr, observed=got_hdr, bucket="header")
    if sorted(g.subgrids.keys()) != sorted(sg["name"] for sg in subgrids):
        raise Fail("sub-grid names do not read back as written", expected=sorted(sg["name"] for sg in subgrids),
                   observed=sorted(g.subgrids.keys()), bucket="subgrid names")
    for sg in subgrids:
        s_lat, n_lat, e_long, w_long = NF.extents(sg)
        o = g.subgrids[sg["name"]]
        want = {"sub_name": sg["name"], "parent": sg["parent"], "s_lat": s_lat,
                "n_lat": n_lat, "e_long": e_long, "w_long": w_long, "lat_inc": sg["lat_inc"], "long_inc": sg["long_inc"],
                "gs_count": sg["nrows"] * sg["ncols"]}
        got = {k: getattr(o, k, None) for k in want}
        for k, w8 in (("created", "01012020"), ("updated", "02012020")):
            # dates are stored as eight characters; however the reader presents them, the same digits must come back
            d8 = "".join(ch for ch in str(getattr(o, k, "")) if ch.isdigit())
            if d8 not in (w8, w8[4:] + w8[2:4] + w8[:2]):
                got[k], want[k] = getattr(o, k, None), w8
        if got != want:
            raise Fail("sub-grid metadata does not read back as written", expected=want, observed=got, bucket="subgrid metadata")
    # (b) queries
    worst = 0.0
    for q in case["queries"]:
        lat_sec, lonw_sec = _query_point(subgrids, q)
        lat, lon = lat_sec / 3600.0, -lonw_sec / 3600.0
        if q["kind"] == "se_edge":
            # only where the degree value reproduces the limit exactly, and no other limit is within rounding of the point
            if lat * 3600.0 != lat_sec or lon * -3600.0 != lonw_sec:
                continue
            own = subgrids[q["sg"] % len(subgrids)]
            if any(_on_limit(sg, lat_sec, lonw_sec, sg is own) for sg in subgrids):
                continue
        elif _near_any_edge(subgrids, lat_sec, lonw_sec):
            continue
        if not (-90.0 <= lat <= 90.0) or not (-180.0 <= lon <= 180.0):
            continue        # not a position on the globe as the quantifier has it
        method = q["method"]
        L = NF.locate(subgrids, lat * 3600.0, lon * -3600.0)
        ctx = {"lat": lat, "lon": lon, "method": method, "query": q["kind"]}
        res = nt.interpolate_ntv2(g, lat, lon, method=method)
        if L is None:
            if res is not None and any(v is not None for v in res):
                raise Fail("a value was returned outside every sub-grid", expected=(None,) * 4, observed=dict(ctx, result=res),
                           bucket="outside returns value")
            try:
                r2 = tf.ntv2_2d(g, lat, lon, True, method)
            except Exception:      # noqa: "raises an error" - no exception type is stated
                continue
            raise Fail("ntv2_2d did not raise outside every sub-grid", expected="an error", observed=dict(ctx, result=r2),
                       bucket="outside no error")
        sg = subgrids[L]
        ctx["subgrid"] = sg["name"]
        if res is None or len(res) != 4 or any(v is None for v in res):
            raise Fail("no value returned inside a sub-grid's extents", expected="four fields", observed=dict(ctx, result=res),
                       bucket="inside returns none")
        s_lat, n_lat, e_long, w_long = NF.extents(sg)
        u = (lat * 3600.0 - s_lat) / sg["lat_inc"]
        v = (lon * -3600.0 - e_long) / sg["long_inc"]
        nr, nc = sg["nrows"], sg["ncols"]
        on_node = abs(u - round(u)) < 1e-9 and abs(v - round(v)) < 1e-9
        for k, coef in enumerate(sg["fields"]):
            cls = NF.degree(coef)
            blend, gb, r, c = _bilinear_blend(coef, u, v, nr, nc)
            exact = NF.poly(coef, u, v)
            ga = _cell_grad(coef, r, c)
            if method == "bilinear":
                want, tol, what = blend, 1e-6 + 1e-6 * gb, "bilinear interpolation is not the exact blend of the four enclosing nodes of the selected sub-grid"
            elif on_node:
                want, tol, what = NF.poly(coef, round(u), round(v)), 1e-6 + 1e-6 * ga, "bicubic interpolation does not return the node value at a node"
            elif cls in ("constant", "linear", "bilinear", "biquadratic"):
                want, tol = exact, 1e-6 + 1e-6 * ga
                what = "bicubic interpolation does not reproduce a %s field" % cls
            else:
                continue        # bi-cubic control field: reproduction is not claimed
            err = abs(res[k] - want)
            worst = max(worst, err / tol)
            if not err <= tol:
                raise Fail(what, expected={"value": want, "tol": tol, "field": k, "class": cls},
                           observed=dict(ctx, result=res[k], err=err, cell=(r, c), shape=(nr, nc)),
                           bucket="%s %s" % (method, "node" if on_node else cls))
            if method == "bilinear" and cls in ("constant", "linear") and not abs(res[k] - exact) <= 1e-6 + 1e-6 * ga:
                raise Fail("bilinear interpolation does not reproduce a linear field", expected=exact,
                           observed=dict(ctx, result=res[k]), bucket="bilinear linear")
        if method == "bicubic" and q.get("forward") and q["ir"]:
            # the documented defaults: bicubic interpolation, forward direction
            if tuple(nt.interpolate_ntv2(g, lat, lon)) != tuple(res):
                raise Fail("interpolate_ntv2 without a method is not the documented default (bicubic)", expected=res,
                           observed=dict(ctx, result=nt.interpolate_ntv2(g, lat, lon)), bucket="default method")
            if tuple(tf.ntv2_2d(g, lat, lon)) != tuple(tf.ntv2_2d(g, lat, lon, True, "bicubic")):
                raise Fail("ntv2_2d without direction and method is not the documented default (forward, bicubic)",
                           expected=tf.ntv2_2d(g, lat, lon, True, "bicubic"), observed=dict(ctx, result=tf.ntv2_2d(g, lat, lon)),
                           bucket="default arguments")
        # (c) 2-D transformation: add the latitude shift, subtract the positive-west longitude shift (arc-seconds)
        fwd = q["forward"]
        # the direction flag as callers hold it: a Python bool, the numpy bool a comparison returns, or 1 / 0
        rep = q.get("flag", "bool")
        flag = {"bool": fwd, "np": np.bool_(fwd), "int": int(fwd)}[rep]
        t = tf.ntv2_2d(g, lat, lon, flag, method) if not q.get("kw") else tf.ntv2_2d(g, lat, lon, forward_tf=flag, method=method)
        sgn = 1.0 if fwd else -1.0
        want_t = (float(lat) + sgn * float(res[0]) / 3600.0, float(lon) - sgn * float(res[1]) / 3600.0)   # in double precision, whatever type the shifts came back as
        if not (abs(t[0] - want_t[0]) <= 1e-12 and abs(t[1] - want_t[1]) <= 1e-12):
            raise Fail("ntv2_2d does not add the latitude shift and subtract the positive-west longitude shift (opposite in reverse)",
                       expected=want_t, observed=dict(ctx, forward=fwd, result=t, shifts=res[:2]), bucket="ntv2_2d sign")
    # (d) the same position written in another numeric form: whole degrees that lie inside the first sub-grid, handed over as
    #     Python ints and as numpy integers (and as numpy float64), give what the floats give
    sg0 = subgrids[0]
    s_lat, n_lat, e_long, w_long = NF.extents(sg0)
    la = math.ceil((s_lat + 1.0) / 3600.0)
    lo = -math.ceil((e_long + 1.0) / 3600.0)
    if la * 3600.0 < n_lat - 1.0 and -lo * 3600.0 < w_long - 1.0:
        for method in ("bilinear", "bicubic"):
            for fwd in (True, False):
                ref = tf.ntv2_2d(g, float(la), float(lo), fwd, method)
                for form, (a1, a2) in (("int", (int(la), int(lo))), ("numpy int64", (np.int64(la), np.int64(lo))),
                                       ("numpy float64", (np.float64(la), np.float64(lo))), ("int latitude only", (int(la), float(lo)))):
                    t = tf.ntv2_2d(g, a1, a2, fwd, method)
                    # the same position within the interpolation tolerance of the statement (1e-6"): the interpolation mixes the
                    # float32 node values with the caller's numbers, and numpy's promotion rules make that arithmetic single
                    # precision for Python floats and double precision for numpy scalars - both are within the statement, and
                    # they differ by float32 rounding of the shift (1e-6" observed for a 1.1" shift), not by 1e-12 deg
                    tol_deg = 2.0 * (1e-6 + 1e-6 * max(abs(float(ref[0]) - la), abs(float(ref[1]) - lo)) * 3600.0) / 3600.0
                    if not (abs(t[0] - ref[0]) <= tol_deg and abs(t[1] - ref[1]) <= tol_deg):
                        raise Fail("ntv2_2d gives another position when the same whole-degree latitude / longitude are given as %s" % form,
                                   expected={"as floats": ref}, observed={"result": t, "lat": la, "lon": lo, "method": method, "forward": fwd},
                                   bucket="ntv2_2d numeric form")
        metric("whole-degree positions inside the grid", 1)
    metric("interp_err_over_tol", worst)


# ------------------------------------------------------------------------------------------------ generators

_unit = S.floats(0.0, 1.0)
INC_INT = [30.0, 45.0, 60.0, 75.0, 150.0, 300.0, 600.0, 900.0, 1800.0, 3600.0]
INC_DYADIC = [37.5, 56.25, 112.5, 93.75, 468.75]
INC_MILLI = [30.001, 45.123, 60.6, 299.999, 150.05, 1000.007]
# increments with 4 .. 6 decimals: (increment, m) such that m x increment has 3 decimals (extents are stored to 0.001")
INC_MICRO = [(45.0005, 2), (30.00025, 4), (60.0002, 5), (30.000125, 8), (75.0001, 10), (150.0625, 16), (37.500125, 8), (3599.9995, 2)]


def _dy(draw, lim, den):
    return draw(st.integers(-lim * den, lim * den)) / float(den)


@st.composite
def _fields(draw, nrows=0, ncols=0, hot=None):
    """Four fields per sub-grid.  With `hot` (a list that receives [u0, v0]) the bi-quadratic field is, half of the time, a pure
    dome / bowl / saddle a (u - u0)^2 + b (v - v0)^2 + c whose stationary point (u0, v0) lies inside the grid on a half-cell
    lattice: the cells around an extremum are where the four enclosing nodes say least about the value between them."""
    kinds = draw(st.permutations(["linear", "bilinear", "biquadratic", "bicubic"]))
    out = []
    for kd in kinds:
        c = [0.0] * len(NF.TERMS)
        if kd == "biquadratic" and hot is not None and nrows >= 3 and ncols >= 3 and draw(st.booleans()):
            u0 = draw(st.integers(0, 2 * (nrows - 1))) / 2.0
            v0 = draw(st.integers(0, 2 * (ncols - 1))) / 2.0
            a = draw(st.sampled_from([1, 2, 4, 8, -1, -2, -4, -8, 16, -16])) / 32.0
            b = draw(st.sampled_from([1, 2, 4, 8, -1, -2, -4, -8, 16, -16])) / 32.0
            c[4], c[5] = a, b
            c[1], c[2] = -2.0 * a * u0, -2.0 * b * v0
            c[0] = _dy(draw, 64, 8)
            hot[:] = [u0, v0]
            out.append(c)
            continue
        c[0] = _dy(draw, 64, 8)
        c[1], c[2] = _dy(draw, 2, 8), _dy(draw, 2, 8)
        if kd in ("bilinear", "biquadratic", "bicubic"):
            c[3] = _dy(draw, 1, 16)
        if kd in ("biquadratic", "bicubic"):
            c[4], c[5] = _dy(draw, 1, 32), _dy(draw, 1, 32)
            c[6], c[7] = _dy(draw, 1, 64), _dy(draw, 1, 64)
            c[8] = draw(st.sampled_from([0.0, 1 / 128.0, -1 / 128.0, 1 / 64.0]))
        if kd == "bicubic":
            c[9], c[10] = draw(st.sampled_from([1 / 64.0, -1 / 64.0])), _dy(draw, 1, 64)
        out.append(c)
    return out


def _with_fields(draw, sg):
    hot = []
    sg["fields"] = draw(_fields(sg["nrows"], sg["ncols"], hot))
    if hot:
        sg["hot"] = hot
    return sg


@st.composite
def grid_files(draw):
    cls = draw(st.sampled_from(["int", "int", "dyadic", "milli", "micro"]))
    pool = {"int": INC_INT, "dyadic": INC_DYADIC, "milli": INC_MILLI, "micro": INC_INT}[cls]
    lat_inc, long_inc = draw(st.sampled_from(pool)), draw(st.sampled_from(pool))
    nrows = draw(st.one_of(st.integers(3, 12), st.integers(3, 60)))
    ncols = draw(st.one_of(st.integers(3, 12), st.integers(3, 60)))
    m1 = 1
    if cls == "micro":
        (lat_inc, m1), (long_inc, m2) = draw(st.sampled_from(INC_MICRO)), draw(st.sampled_from(INC_MICRO))
        nrows = m1 * draw(st.integers(1, max(1, 48 // m1))) + 1
        ncols = m2 * draw(st.integers(1, max(1, 48 // m2))) + 1
    span_lat = (nrows - 1) * lat_inc
    span_lon = (ncols - 1) * long_inc
    lat0 = -88.0 * 3600 + draw(_unit) * max(0.0, 176.0 * 3600 - 2 * span_lat - 7200)
    lon0 = -179.0 * 3600 + draw(_unit) * max(0.0, 358.0 * 3600 - 2 * span_lon - 7200)
    frac = draw(st.sampled_from([0.0, 0.0, 0.5, 0.125, 0.001, 0.333]))
    s_lat = round(math.floor(lat0) + frac, 3)
    e_long = round(math.floor(lon0) + frac, 3)
    P = {"name": "PARENT", "parent": "NONE", "s_lat": s_lat, "e_long": e_long, "lat_inc": lat_inc, "long_inc": long_inc,
         "nrows": nrows, "ncols": ncols}
    _with_fields(draw, P)
    subs = [P]
    n_extra = draw(st.sampled_from([0, 1, 2, 3, 3]))

    def child(of, name, rlo, rhi, k):
        # occupies whole cells [r0, r0+dr] x [c0, c0+dc] of `of`, spacing of/k
        if rhi - rlo < 1 or of["ncols"] < 2:
            return None
        li, lo = round(of["lat_inc"] / k, 6), round(of["long_inc"] / k, 6)
        if li * k != of["lat_inc"] or lo * k != of["long_inc"] or li < 7.5:
            return None
        if round(li, 3) != li or round(lo, 3) != lo:
            return None     # extents are stored to 0.001": a child whose spacing has more decimals cannot have exact extents
        r0 = draw(st.integers(rlo, rhi - 1))
        dr = draw(st.integers(1, min(rhi - r0, max(1, 58 // k))))
        c0 = draw(st.integers(0, of["ncols"] - 2))
        dc = draw(st.integers(1, min(of["ncols"] - 1 - c0, max(1, 58 // k))))
        return _with_fields(draw, {"name": name, "parent": of["name"], "s_lat": round(of["s_lat"] + r0 * of["lat_inc"], 3),
                                   "e_long": round(of["e_long"] + c0 * of["long_inc"], 3), "lat_inc": li, "long_inc": lo,
                                   "nrows": dr * k + 1, "ncols": dc * k + 1})

    mid = (nrows - 1) // 2
    if n_extra >= 1:
        c1 = child(P, "CHILD1", 0, max(mid, 1), draw(st.sampled_from([2, 2, 3, 4, 5])))
        if c1:
            subs.append(c1)
            if n_extra >= 3:
                gc = child(c1, "GRANDCH", 0, c1["nrows"] - 1, draw(st.sampled_from([2, 3])))
                if gc:
                    subs.append(gc)
    if n_extra >= 2:
        if draw(st.booleans()) and nrows - 1 - mid >= 1:
            c2 = child(P, "CHILD2", mid, nrows - 1, draw(st.sampled_from([2, 3, 4])))
            if c2:
                subs.append(c2)
        else:       # a second top-level grid, disjoint from the first (north of it)
            q_lat = round(s_lat + span_lat + draw(st.sampled_from([0.0, 3600.0, 30.0])), 3)
            if q_lat + 10 * lat_inc < 89 * 3600:
                subs.append(_with_fields(draw, {
                    "name": "OTHER", "parent": "NONE", "s_lat": q_lat, "e_long": e_long, "lat_inc": lat_inc,
                    "long_inc": draw(st.sampled_from(pool)),
                    # (rows in whole multiples of m1 so that the northern limit has three decimals, as for the parent)
                    "nrows": (draw(st.integers(3, 10)) if m1 == 1 else m1 * draw(st.integers(1, max(1, 10 // m1))) + 1),
                    "ncols": draw(st.integers(3, 10))}))
    if len(subs) > 1 and draw(st.integers(0, 1)) == 0:
        # any order of the records in the file (children before parents, the finest in the middle, ...)
        subs = list(draw(st.permutations(subs)))
    nq = draw(st.integers(8, 30))
    queries = []
    for _ in range(nq):
        queries.append({
            "sg": draw(st.integers(0, 7)),
            "kind": draw(st.sampled_from(["node", "edge", "interior", "interior", "ring", "ring", "just_inside", "just_outside", "far", "se_edge",
                                           "hot", "hot"])),
            "fr": draw(_unit), "fc": draw(_unit), "fu": draw(_unit), "fv": draw(_unit), "ir": draw(st.integers(0, 1)),
            "ic": draw(st.integers(0, 1)), "side": draw(st.integers(0, 3)), "delta": draw(S.log_uniform(2e-6, 1.0)),
            "method": draw(st.sampled_from(["bilinear", "bicubic", "bicubic"])), "forward": draw(st.booleans()),
            "flag": draw(st.sampled_from(["bool", "bool", "np", "int"])), "kw": draw(st.booleans())})
    return {"subgrids": subs, "queries": queries, "gs_type": "SECONDS",      # (shifts are stated in arc-seconds; what a reader should do with another GS_TYPE is not)
            "system_f": draw(st.sampled_from(["AGD66", "GDA94", "A"])), "system_t": draw(st.sampled_from(["GDA94", "GDA2020", "WGS84"]))}


def _nt(case):
    return any(q["kind"] not in ("node", "far") for q in case["queries"])


def _classes(case):
    subs = case["subgrids"]
    out = ["subgrids:%d" % len(subs)]
    inc = subs[0]["lat_inc"]
    out.append("inc:int" if inc == int(inc) else ("inc:micro (4-6 decimals)" if round(inc, 3) != inc else
                                                  ("inc:dyadic" if (inc * 16) == int(inc * 16) else "inc:milli")))
    if any(s["e_long"] < 0 for s in subs):
        out.append("east-longitudes")
    if any(s["e_long"] > 0 for s in subs):
        out.append("west-longitudes")
    out.append("south" if subs[0]["s_lat"] < 0 else "north")
    if subs[0]["name"] != "PARENT" and len(subs) > 1:
        out.append("shuffled-order")
    def qk(q):
        if q["kind"] == "hot" and not subs[q["sg"] % len(subs)].get("hot"):
            return "interior"
        return "stationary-point" if q["kind"] == "hot" else q["kind"]
    for k in sorted({qk(q) + "/" + q["method"] for q in case["queries"]}):
        out.append("q:" + k)
    return out


SUBCHECKS = [
    SubCheck("files_and_queries", check_file, strategy=grid_files(), nontrivial=_nt, classes=_classes,
             quick=1200, thorough=24000, shards_quick=12, shards_thorough=16,
             fresh=(8, 64, 3), rule="per generated file: metadata reads back exactly; per query: selected (finest) sub-grid, bilinear = exact 4-node "
                  "blend, node values, linear / bi-quadratic reproduction, None + ValueError outside, ntv2_2d sign convention"),
]
