"""C06 7-parameter transformation equals its similarity formula and is reversible."""
import math

import numpy as np
from hypothesis import strategies as st

from .. import repo, strategies as S, trcases as TR
from ..core import SubCheck, Fail, Discard, metric, target, is_seq
from ..oracles import helmert_ref as H

RULE = ("points with |x|,|y|,|z| <= 5e7 m (all octants, axes, Earth-surface shell) x every shipped parameter set (complete "
        "enumeration, several points each) and random sets (|t| <= 1000 m, |scale| <= 100 ppm, |rotation| < 60 arcsec, with / "
        "without uncertainties, rotations up to the last float below 60, parameters as floats / ints / numpy scalars, expected values "
        "taken from the generated spec) x covariance (absent, PSD full rank / rank 2 / rank 1 / diagonal / zero / ill-conditioned; "
        "symmetric bit for bit or to rounding; float64 / int64 / float32 arrays; with and without parameter uncertainties); "
        "non-trivial = set with non-zero rotation or scale")
ASSUMPTIONS = ["reference formula t + (1 + s 1e-6)(I + W(r arcsec)) X evaluated exactly in Fraction (gvp/oracles/helmert_ref.py), "
               "self-tested on the GDA2020 technical manual's worked example",
               "second-order bound for 'T then -T': (s^2 + w^2 + s^2 w^2)|X| + (s + w + s w)|t| (w = |r| in radians), exact algebra",
               "covariance equality: relative Frobenius 1e-9; symmetry / PSD: 1e-12 relative"]


class _CallerArray(np.ndarray):
    """A caller's own ndarray subclass (the way units / labelled-array packages hold their data)."""


def selftest():
    H.selftest()


def _dist(a, b):
    return math.sqrt(sum((float(x) - float(y)) ** 2 for x, y in zip(a, b)))


def check_formula(case):
    tf = repo.mod("geodepy.transform")
    tr = TR.make_trans(case["trans"])
    p = TR.expected_params(case["trans"], tr)
    X = case["X"]
    nk = case.get("num", "float")
    got = tf.conform7(S.as_kind(X[0], nk), S.as_kind(X[1], nk), S.as_kind(X[2], nk), tr)
    if not is_seq(got, 4):
        raise Fail("conform7 did not return (x, y, z, vcv)", observed=repr(got))
    want = H.apply_float(p, X)
    d = _dist(got[:3], want)
    metric("formula_err_m", d)
    target(d, "formula_err")
    if not d <= 1e-6:
        raise Fail("conform7 differs from the exactly evaluated similarity formula by more than 1 micrometre",
                   expected={"xyz": want, "params": p}, observed={"xyz": got[:3], "dist_m": d})


def check_reverse(case):
    tf = repo.mod("geodepy.transform")
    tr = TR.make_trans(case["trans"])
    p = TR.expected_params(case["trans"], tr)
    X = case["X"]
    a = tf.conform7(X[0], X[1], X[2], tr)
    neg = -tr
    b = tf.conform7(a[0], a[1], a[2], neg)
    d = _dist(b[:3], X)
    metric("there_and_back_m", d)
    name = case["trans"].get("name")
    bound = H.second_order_bound(p, X) + 1e-6
    if name is not None:
        stated = 2e-3 if ("agd66" in name or "agd84" in name) else 1e-5
        bound = min(bound, stated) if d <= stated else stated
    if not d <= bound:
        raise Fail("applying a parameter set and then its negation does not return to the start within the second-order terms",
                   expected={"xyz": X, "bound_m": bound}, observed={"xyz": b[:3], "dist_m": d})
    # the negated set carries exactly the negated parameters
    pn = TR.params_of(neg)
    if tuple(-v for v in p) != pn and tuple(-v + 0.0 for v in p) != tuple(v + 0.0 for v in pn):
        raise Fail("negating a parameter set does not negate its seven parameters", expected=[-v for v in p], observed=pn)
    want = H.apply_float(pn, H.apply_float(p, X))
    d2 = _dist(b[:3], want)
    if not d2 <= 2e-6:
        raise Fail("T then -T differs from the exact composition of the two formulae by more than 2 micrometres",
                   expected=want, observed={"xyz": b[:3], "dist_m": d2})


def check_covariance(case):
    tf = repo.mod("geodepy.transform")
    tr = TR.make_trans(case["trans"])
    sd = TR.sd_of(tr)
    if sd is not None and any(0.0 < v < 1e-12 for v in sd):
        raise Discard()      # squares of such uncertainties are subnormal: no relative comparison is meaningful
    p = TR.expected_params(case["trans"], tr)
    X = case["X"]
    V = np.array(case["vcv"], dtype=float)
    dt = case.get("dtype", "float64")
    if dt == "int64":
        # integer-valued PSD matrix held in an integer array (e.g. np.diag([4, 1, 9])): scale to integers, B B^T keeps PSD
        B = np.rint(V / (np.abs(V).max() or 1.0) * 3.0).astype(np.int64)
        V = B @ B.T
    elif dt == "float32":
        # exactly representable (dyadic) PSD matrix held in single precision
        B = np.rint(V / (np.abs(V).max() or 1.0) * 3.0)
        V = ((B @ B.T) / 64.0).astype(np.float32)
    if dt == "subclass":
        V = V.view(_CallerArray)           # an ndarray subclass of the caller's own (same memory layout, same values)
    V_before = np.array(V, copy=True)
    got = tf.conform7(X[0], X[1], X[2], tr, V)
    V = np.asarray(V)
    V = V.astype(float)
    if not np.array_equal(V, V_before.astype(float)):
        raise Fail("conform7 modified the caller's covariance matrix", expected=V_before, observed=V)
    # the point is transformed by the same formula whether or not a covariance travels with it
    if not is_seq(got, 4):
        raise Fail("conform7 did not return (x, y, z, vcv)", observed=repr(got))
    d = _dist(got[:3], H.apply_float(p, X))
    if not d <= 1e-6:
        raise Fail("conform7 called with a covariance differs from the exactly evaluated similarity formula by more than 1 micrometre",
                   expected={"xyz": H.apply_float(p, X), "params": p}, observed={"xyz": got[:3], "dist_m": d}, bucket="formula with vcv")
    if sd is None:
        return               # no parameter uncertainties: the statement promises no covariance (the point was checked)
    out = got[3]
    if out is None or not hasattr(out, "shape") or out.shape != (3, 3):
        raise Fail("a covariance and a set with uncertainties were supplied but no 3x3 covariance was returned", observed=repr(out))
    want = H.propagate(p, sd, X, V)
    scale = TR.fro(want) + 1e-300
    rel = TR.fro(out - want) / scale
    metric("cov_rel_err", rel)
    target(rel, "cov_rel_err")
    if not rel <= 1e-9:
        raise Fail("returned covariance differs from the first-order propagation J Q J^T (relative Frobenius > 1e-9)",
                   expected=want, observed={"vcv": out, "rel": rel})
    asym = TR.fro(out - out.T) / scale
    if not asym <= 1e-12:
        raise Fail("returned covariance is not symmetric", observed={"vcv": out, "asym_rel": asym})
    lam = float(np.linalg.eigvalsh((out + out.T) / 2.0).min())
    if not lam >= -1e-12 * scale:
        raise Fail("returned covariance is not positive semi-definite", observed={"vcv": out, "min_eig": lam})
    # the way back: the point AND the covariance the first call returned (symmetric to rounding only, numpy-typed - whatever the
    # library hands out) go into the call with the negated set; that call must again return J Q J^T of what it was given
    back = tf.conform7(got[0], got[1], got[2], -tr, out)
    if not is_seq(back, 4) or back[3] is None or getattr(back[3], "shape", None) != (3, 3):
        raise Fail("the negated set, fed with the point and covariance of the forward call, returned no 3x3 covariance", observed=repr(back))
    pn = tuple(-v for v in p)
    want2 = H.propagate(pn, sd, [float(got[0]), float(got[1]), float(got[2])], np.array(out, dtype=float))
    rel2 = TR.fro(np.asarray(back[3], dtype=float) - want2) / (TR.fro(want2) + 1e-300)
    metric("chained_cov_rel_err", rel2)
    if not rel2 <= 1e-9:
        raise Fail("a covariance returned by conform7 and fed into the next call is not propagated as J Q J^T (relative Frobenius > 1e-9)",
                   expected=want2, observed={"vcv": back[3], "rel": rel2}, bucket="chained covariance")


# ------------------------------------------------------------------------------------------------ generators

def _shipped():
    return st.sampled_from(TR.shipped_names()).map(lambda n: {"name": n})


def _random(with_sd):
    sd = TR.random_sd7() if with_sd else st.one_of(st.none(), TR.random_sd7())
    return st.fixed_dictionaries({"p": TR.random_p7(), "sd": sd, "pnum": TR.pnum_kind})


def _shipped_with_sd():
    c = repo.mod("geodepy.constants")
    names = [n for n in TR.shipped_names() if getattr(c, n).tf_sd is not None]
    return st.sampled_from(names).map(lambda n: {"name": n})


def _lazy(fn):
    return st.deferred(fn)


cases = st.fixed_dictionaries({"trans": st.one_of(_lazy(_shipped), _lazy(_shipped), _random(False)),
                               "X": st.one_of(TR.point(5e7), TR.point(5e7), TR.point(5e7).map(lambda p: [float(round(v)) for v in p])),
                               "num": S.num_kind})
cov_cases = st.fixed_dictionaries({"trans": st.one_of(_lazy(_shipped_with_sd), _random(True), _random(True), _lazy(_shipped), _random(False)),
                                   "X": TR.point(5e7),
                                   "vcv": TR.psd3_as_held(), "dtype": st.sampled_from(["float64", "float64", "float64", "int64", "float32", "subclass"])})


def enumerate_shipped(tier, seed, shard, nshards):
    """Every shipped set x a fixed fan of points (corners of the domain, axes, Earth-surface points)."""
    import random
    rnd = random.Random(seed * 7919 + 13)
    pts = [[5e7, 5e7, 5e7], [-5e7, 5e7, -5e7], [5e7, -5e7, -5e7], [-5e7, -5e7, 5e7], [6378137.0, 0.0, 0.0],
           [0.0, -6378137.0, 0.0], [0.0, 0.0, 6356752.3], [-4052051.7643, 4212836.2017, -2545106.0245], [0.0, 0.0, 0.0]]
    n_extra = 8 if tier == "quick" else 60
    for i, name in enumerate(TR.shipped_names()):
        if i % nshards != shard:
            continue
        for X in pts:
            yield {"trans": {"name": name}, "X": X}
        for _ in range(n_extra):
            yield {"trans": {"name": name}, "X": [rnd.uniform(-5e7, 5e7) for _ in range(3)]}


def _sphere_point(u_az, u_z, u_r, rmax):
    """A point whose direction is uniform on the sphere (so that no direction - a rotation axis, a pole - is favoured or starved)
    and whose distance from the origin is half uniform up to rmax, half log-uniform 1 m .. rmax."""
    z = 2.0 * u_z - 1.0
    k, r = S.u_pick(u_r, [0, 1])
    rad = rmax * r if k == 0 else 10.0 ** (math.log10(rmax) * r)
    p = math.sqrt(max(0.0, 1.0 - z * z))
    lam = 2.0 * math.pi * u_az
    return [rad * p * math.cos(lam), rad * p * math.sin(lam), rad * z]


def _fill_build(u):
    names = TR.shipped_names()
    name, r = S.u_pick(u[3], names)
    return {"trans": {"name": name}, "X": _sphere_point(u[0], u[1], u[2], 5e7)}


def _nt(case):
    t = case["trans"]
    if "name" in t:
        p = TR.params_of(TR.make_trans(t))
    else:
        p = t["p"]
    return any(v != 0 for v in p[3:])


def _classes(case):
    t = case["trans"]
    out = ["set:shipped" if "name" in t else "set:random"]
    if "name" in t and ("agd" in t["name"]):
        out.append("set:agd")
    if t.get("sd") is not None:
        out.append("random-with-sd")
    X = case["X"]
    out.append("octant:%d" % ((X[0] < 0) * 4 + (X[1] < 0) * 2 + (X[2] < 0)))
    if "vcv" in case:
        V = np.array(case["vcv"])
        r = int(np.linalg.matrix_rank(V)) if V.any() else 0
        out.append("vcv-rank:%d" % r)
        out.append("vcv-dtype:" + case.get("dtype", "float64"))
    return out


def _int_first(case, k):
    """First call of a pristine process with whole-number coordinates passed as Python ints (or numpy float64 scalars)."""
    if k % 3 == 2:
        return case
    return dict(case, X=[float(round(v)) for v in case["X"]], num=("int" if k % 3 == 0 else "np64"))


SUBCHECKS = [
    SubCheck("formula_shipped_sets", check_formula, enumerate=enumerate_shipped, nontrivial=_nt, classes=_classes,
             shards_quick=2, shards_thorough=8, exhaustive="both",
             rule="all shipped sets x fixed fan of points + random points: conform7 vs exact formula, 1 micrometre"),
    SubCheck("reverse_shipped_sets", check_reverse, enumerate=enumerate_shipped, nontrivial=_nt, classes=_classes,
             shards_quick=2, shards_thorough=8, exhaustive="both",
             rule="all shipped sets: T then -T within 0.01 mm (2 mm for AGD66/84 sets) and within 2 um of the exact composition"),
    SubCheck("formula_fill", check_formula, enumerate=S.fill(606, 4, _fill_build, 40000, 800000), nontrivial=_nt, classes=_classes,
             shards_quick=12, shards_thorough=16,
             rule="low-discrepancy fill of shipped set x direction (uniform on the sphere) x distance from the origin (uniform / log-uniform to 5e7 m): 40 000 / 800 000 points"),
    SubCheck("formula_generated", check_formula, strategy=cases, nontrivial=_nt, classes=_classes,
             quick=2500, thorough=250000, shards_quick=3, shards_thorough=12, seq_groups=[["trans"], ["X", "num"]],
             fresh=(12, 96, 4), fresh_first=_int_first,
             rule="random points x (shipped | random sets): conform7 vs exact formula, 1 micrometre"),
    SubCheck("reverse_generated", check_reverse, strategy=cases, nontrivial=_nt, classes=_classes,
             quick=3000, thorough=300000, shards_quick=3, shards_thorough=12,
             rule="T then -T within the analytic second-order bound (+1 um) for random sets, stated bounds for shipped sets"),
    SubCheck("covariance_propagation", check_covariance, strategy=cov_cases, nontrivial=_nt, classes=_classes,
             quick=2500, thorough=200000, shards_quick=3, shards_thorough=12, seq_groups=[["trans"], ["X"], ["vcv", "dtype"]],
             rule="vcv given and set carries uncertainties: result = S V S^T + sum sigma_k^2 g_k g_k^T (1e-9), symmetric, PSD; input untouched"),
]
