"""C02 Grid-to-geographic conversion inverts the forward conversion everywhere."""
import math

from hypothesis import strategies as st

from .. import repo, strategies as S, tmcases as T
from ..core import SubCheck, Fail, Discard, metric, target, is_seq
from ..oracles import tm_exact

RULE = ("(a) geographic positions of C01 -> grid -> geographic; (b) grid coordinates drawn directly on every zone / "
        "hemisphere / ellipsoid / projection (uniform, 100 km lattice, boundaries) -> geographic -> grid; (c) "
        "hemisphere mirror pairs; (d) differential against Standalone/mga2gda.py, function and batch-file path (1..40 rows, unsorted / "
        "repeated ids); (e) latitudes outside the band in every call form; floats, ints, numpy scalars; non-trivial = more than 1 km "
        "off both the central meridian and the equator")
ASSUMPTIONS = ["'within 2e-9 degrees' is read as great-circle separation sqrt(dlat^2 + (cos(lat) dlon)^2) (DESIGN 2): the "
               "forward result is rounded to 0.1 mm by design, which is 4e-9 deg of *longitude* at latitude 84",
               "the mirror relation is asserted for projections whose false northing is 10 000 000 m, as stated",
               "grid cases whose inverse latitude is within 1e-6 deg of the band limit, or further than 30 deg from the "
               "central meridian, or at a longitude outside [-180, 180] are outside the quantifier and discarded (counted)"]

_standalone = []


def standalone():
    if not _standalone:
        with own_process_context():
            _standalone.append(repo.load_by_path("mga2gda_standalone", "Standalone/mga2gda.py"))
    return _standalone[0]


def own_process_context():
    """The stand-alone converter is a program: it runs in a process of its own, whose decimal context is Python's default.  It is
    imported and called under that context whatever the application-state environment of the runner has set process-wide (the
    module computes its ellipsoid constants with Decimal at import; an application's context is not its environment)."""
    import decimal
    return decimal.localcontext(decimal.Context(prec=28, rounding=decimal.ROUND_HALF_EVEN))


def selftest():
    tm_exact.selftest()


def _arc(lat1, lon1, lat2, lon2):
    dlon = (lon2 - lon1 + 180.0) % 360.0 - 180.0      # 181 deg and -179 deg are the same meridian
    return math.hypot(lat2 - lat1, math.cos(math.radians(lat1)) * dlon)


def check_geo_roundtrip(case):
    cv = repo.mod("geodepy.convert")
    lat, lon = case["lat"], case["lon"]
    hemi, zone, east, north, psf, conv = T.call_geo2grid(cv, case, lat, lon)
    T.grid_range_or_discard(east, north)     # e.g. ISG (false northing 5 000 km) south of 45 S: no valid grid coordinate
    back = T.call_grid2geo(cv, case, zone, east, north, hemi)
    if not is_seq(back, 4):
        raise Fail("grid2geo did not return a 4-tuple", observed=repr(back))
    d = _arc(lat, lon, back[0], back[1])
    metric("geo_roundtrip_deg", d)
    target(d, "geo_roundtrip")
    if not d <= 2e-9:
        raise Fail("geographic -> grid -> geographic does not return within 2e-9 degrees (arc)",
                   expected={"lat": lat, "lon": lon, "tol_deg": 2e-9},
                   observed={"grid": (hemi, zone, east, north), "lat": back[0], "lon": back[1], "arc_deg": d})


def check_interleaved(case):
    """A short series of conversions in both directions on changing ellipsoids / projections, each judged on its own against
    the exact projection (no library call of the harness in between): a conversion must not depend on which conversions were
    made before it."""
    cv = repo.mod("geodepy.convert")
    ran = 0
    for k, op in enumerate(case["ops"]):
        lat, lon = op["lat"], op["lon"]
        fe, fn, k0, zw, cm1, kind = S.projection_params(op["prj"])
        if op["dir"] == "fwd" or not op["zone"]:
            hemi, zone, east, north, psf, conv = T.call_geo2grid(cv, op, lat, lon)
            cm = T.cm_of(op["prj"], zone)
            e0, n0, _, _ = T.oracle_forward(lat, lon, cm, op)
            d = math.hypot(east - e0, north - n0)
            if not d <= 2e-4:
                raise Fail("geo2grid differs from the exact projection by more than 0.2 mm after other conversions were made",
                           expected={"east": e0, "north": n0}, observed={"call": k, "east": east, "north": north, "dist_m": d,
                                                                         "earlier": [o["dir"] for o in case["ops"][:k]]},
                           bucket="interleaved forward")
        else:
            cm = T.cm_of(op["prj"], op["zone"])
            e0, n0, _, _ = T.oracle_forward(lat, lon, cm, op)
            e0, n0 = round(e0, 4), round(n0, 4)
            try:
                T.grid_range_or_discard(e0, n0)
            except Discard:
                continue
            if not (-80.0 + 1e-6 <= lat <= 84.0 - 1e-6):
                continue
            back = T.call_grid2geo(cv, op, op["zone"], e0, n0, "south" if lat < 0 else "north")
            d = _arc(lat, lon, back[0], back[1])
            if not d <= 2e-9:
                raise Fail("grid2geo of the exact projection of a position does not return it within 2e-9 degrees after other "
                           "conversions were made", expected={"lat": lat, "lon": lon},
                           observed={"call": k, "lat": back[0], "lon": back[1], "arc_deg": d,
                                     "earlier": [o["dir"] for o in case["ops"][:k]]}, bucket="interleaved inverse")
        ran += 1
    if not ran:
        raise Discard()


def check_grid_roundtrip(case):
    cv = repo.mod("geodepy.convert")
    T.grid_predomain_or_discard(case)          # the domain is decided by the exact projection, not by the library's own answer
    got = T.call_grid2geo(cv, case, case["zone"], case["east"], case["north"], case["hemi"])
    if not is_seq(got, 4):
        raise Fail("grid2geo did not return a 4-tuple", observed=repr(got))
    lat, lon = got[0], got[1]
    c2 = dict(case)
    fwd = T.call_geo2grid(cv, c2, lat, lon)
    hemi, zone, east, north = fwd[0], fwd[1], fwd[2], fwd[3]
    if zone != case["zone"]:
        raise Fail("forward conversion with an explicit zone returned another zone", expected=case["zone"], observed=zone)
    # the hemisphere label must agree unless the point is on the equator (northing 0 / false northing)
    fe, fn, k0, zw, cm1, kind = S.projection_params(case["prj"])
    n_in = case["north"]
    if hemi.lower() != case["hemi"]:
        if lat != 0.0:
            raise Fail("grid -> geographic -> grid changed the hemisphere", expected=case["hemi"],
                       observed={"hemisphere": hemi, "lat": lat})
        n_in = 0.0 if hemi == "North" else fn       # same point, the other hemisphere's representation
    d = math.hypot(east - case["east"], north - n_in)
    metric("grid_roundtrip_m", d)
    target(d, "grid_roundtrip")
    if not d <= 2e-4:
        raise Fail("grid -> geographic -> grid does not return within 0.2 mm",
                   expected={"east": case["east"], "north": n_in, "tol_m": 2e-4},
                   observed={"lat": lat, "lon": lon, "east": east, "north": north, "dist_m": d})
    # and the inverse agrees with the exact projection (so that a pair of compensating errors cannot hide)
    cm = T.cm_of(case["prj"], case["zone"])
    gc = dict(case)
    e0, n0, _, _ = T.oracle_forward(lat, lon, cm, gc)
    d0 = math.hypot(e0 - case["east"], n0 - n_in)
    metric("inverse_vs_exact_m", d0)
    if not d0 <= 2e-4:
        raise Fail("the exact Transverse Mercator image of the returned latitude/longitude is not the input grid point (0.2 mm)",
                   expected={"east": case["east"], "north": n_in}, observed={"lat": lat, "lon": lon, "exact_east": e0,
                                                                              "exact_north": n0, "dist_m": d0})


def check_mirror(case):
    cv = repo.mod("geodepy.convert")
    fe, fn, k0, zw, cm1, kind = S.projection_params(case["prj"])
    if fn != 10000000.0:
        raise Discard()
    n = case["north"] if case["hemi"] == "north" else fn - case["north"]
    T.grid_predomain_or_discard(case, north=n, hemi="north")
    a = T.call_grid2geo(cv, case, case["zone"], case["east"], n, "north")
    b = T.call_grid2geo(cv, case, case["zone"], case["east"], 10000000.0 - n, "south")
    dlat = abs(a[0] + b[0])
    dlon = abs(a[1] - b[1])
    metric("mirror_dlat_deg", dlat)
    metric("mirror_dlon_deg", dlon)
    if not (dlat <= 2e-11 and dlon <= 2e-11):
        raise Fail("mirror-image grid coordinates do not give opposite latitudes and identical longitudes",
                   expected={"lat_north": a[0], "lon_north": a[1], "tol_deg": 2e-11},
                   observed={"lat_south": b[0], "lon_south": b[1]})
    if not (a[0] >= 0.0 and b[0] <= 0.0):
        raise Fail("hemisphere argument does not determine the sign of the latitude", observed={"north": a[0], "south": b[0]})


def check_standalone(case):
    with own_process_context():
        return _check_standalone(case)


def _check_standalone(case):
    cv = repo.mod("geodepy.convert")
    sa = standalone()
    T.grid_predomain_or_discard(dict(case, prj="utm", ell="grs80"), hemi="south")
    lib = cv.grid2geo(case["zone"], case["east"], case["north"], "south")
    got = sa.grid2geo(case["zone"], case["east"], case["north"])
    if not is_seq(got, 2):
        raise Fail("Standalone grid2geo did not return (lat, lon)", observed=repr(got))
    d = max(abs(got[0] - lib[0]), abs(got[1] - lib[1]))
    metric("standalone_diff_deg", d)
    target(d, "standalone_diff")
    if not d <= 1e-10:
        raise Fail("Standalone/mga2gda.grid2geo differs from the library by more than 1e-10 degrees",
                   expected={"lat": lib[0], "lon": lib[1]}, observed={"lat": got[0], "lon": got[1], "diff_deg": d})


def _hp_numeric(v):
    """Degrees denoted by a D.MMSSssss float, fields read from its 13-decimal rendering (a seconds field of 60.0 from a
    missing carry still denotes the right angle numerically, so it is not rejected here)."""
    txt = "%.13f" % abs(v)
    ip, fp = txt.split(".")
    deg = int(ip) + int(fp[:2]) / 60.0 + float(fp[2:4] + "." + fp[4:]) / 3600.0
    return -deg if v < 0 else deg


def check_standalone_batch(case):
    with own_process_context():
        return _check_standalone_batch(case)


def _check_standalone_batch(case):
    """The batch path itself: a CSV of (point, zone, easting, northing) rows through grid2geoio, output parsed back."""
    import csv
    import os
    cv = repo.mod("geodepy.convert")
    sa = standalone()
    rows = []
    for i, r in enumerate(case["rows"]):
        T.grid_predomain_or_discard(dict(r, prj="utm", ell="grs80"), hemi="south")
        lib = cv.grid2geo(r["zone"], r["east"], r["north"], "south")
        # point identifiers as users write them: not sorted, not necessarily unique, some with blanks or commas (quoted by csv)
        ids = case.get("ids") or []
        name = ids[i % len(ids)] if ids else "P%d" % i
        rows.append((name, r, lib))
    fn = os.path.join(os.getcwd(), "batch_in.csv")
    with open(fn, "w", newline="") as fh:
        w = csv.writer(fh)
        for k, (name, r, lib) in enumerate(rows):
            w.writerow([name, r["zone"] if k % 2 else float(r["zone"]), repr(r["east"]), repr(r["north"])])
    out = fn[:-4] + "_out.csv"
    if os.path.exists(out):
        os.remove(out)
    sa.grid2geoio(fn)
    if not os.path.exists(out):
        raise Fail("the batch converter did not write <input>_out.csv", observed=os.listdir(os.getcwd()))
    with open(out, newline="") as fh:
        got = list(csv.reader(fh))
    os.remove(out)
    os.remove(fn)
    if len(got) != len(rows):
        raise Fail("the batch converter did not write one output row per input row", expected=len(rows), observed=len(got))
    for (name, r, lib), g in zip(rows, got):
        if g[0] != name:
            raise Fail("the batch converter changed the point identifier / row order", expected=name, observed=g)
        lat, lon = _hp_numeric(float(g[1])), _hp_numeric(float(g[2]))
        d = max(abs(lat - lib[0]), abs(lon - lib[1]))
        metric("standalone_batch_diff_deg", d)
        if not d <= 1e-10:
            raise Fail("the batch converter's output (degrees.minutes-seconds) differs from the library by more than 1e-10 degrees",
                       expected={"lat": lib[0], "lon": lib[1]}, observed={"row": g, "lat": lat, "lon": lon, "diff_deg": d})


def check_band_rejected(case):
    cv = repo.mod("geodepy.convert")
    lat_o, lon_o, lat, lon = T.geo_args(case)
    if -80.0 <= lat <= 84.0:
        raise Discard()      # the notation round trip brought the latitude back onto the band limit
    try:
        r = T.call_geo2grid(cv, case, lat_o, lon_o)
    except Exception:          # noqa: "rejects" - no exception type is stated
        return
    raise Fail("forward conversion accepted a latitude outside [-80, 84]", expected="an error", observed=r)


def _nt_geo(case):
    if abs(case["lat"]) <= 0.01:
        return False
    return case["zone"] == 0 or abs(case["lon"] - T.cm_of(case["prj"], case["zone"])) > 0.01


def _nt_grid(case):
    fe, fn, k0, zw, cm1, kind = S.projection_params(case["prj"])
    y = case["north"] if case["hemi"] == "north" else fn - case["north"]
    return abs(case["east"] - fe) > 1000.0 and abs(y) > 1000.0


def _cls_grid(case):
    out = T.tm_classes(case)
    out.append("hemi:" + case["hemi"])
    fe = S.projection_params(case["prj"])[0]
    x = abs(case["east"] - fe)
    out.append("x>400km" if x > 4e5 else ("x=0" if x == 0 else "x<=400km"))
    return out


_fn1e7 = st.one_of(st.just("utm"), T.custom_projection().map(lambda p: dict(p, fn=10000000.0)))

_utm_grs80_south = T.grid_cases(prj_strategy=st.just("utm"), ell_strategy=st.just("grs80")).map(
    lambda c: dict(c, hemi="south", north=(c["north"] if c["hemi"] == "south" else 10000000.0 - c["north"])))

_lat_outside = st.one_of(S.floats(84.0, 90.0).filter(lambda v: v > 84.0), S.floats(-90.0, -80.0).filter(lambda v: v < -80.0),
                         st.sampled_from([84.00000001, -80.00000001, 90.0, -90.0, 85.0, -81.0]))
# every way of asking for a conversion (automatic / explicit zone, UTM / ISG / custom projection, any ellipsoid, floats, ints,
# angle objects, defaults left out), with the latitude replaced by one outside the band
_outside_band = st.builds(lambda c, lat: dict(c, lat=lat), T.geo_cases(), _lat_outside)

_op = st.builds(lambda c, d: dict(c, dir=d), T.geo_cases(kinds=False, ell_strategy=st.sampled_from(["grs80", "ans", "intl24", "wgs84", "grs80", "ans"])),
                st.sampled_from(["fwd", "inv", "inv"]))
interleaved_cases = st.lists(_op, min_size=3, max_size=8).map(lambda ops: {"ops": ops})

SUBCHECKS = [
    SubCheck("geo_grid_geo", check_geo_roundtrip, strategy=T.geo_cases(kinds=False), nontrivial=_nt_geo,
             classes=T.tm_classes, quick=3000, thorough=320000, shards_quick=3, shards_thorough=16,
             rule="geographic -> grid -> geographic within 2e-9 deg of arc"),
    SubCheck("grid_geo_grid", check_grid_roundtrip, strategy=T.grid_cases(), nontrivial=_nt_grid, classes=_cls_grid,
             quick=3000, thorough=320000, shards_quick=3, shards_thorough=16,
             rule="grid -> geographic -> grid (same zone) within 0.2 mm, and exact TM of the result = input within 0.2 mm"),
    SubCheck("geo_axis_sweeps", check_geo_roundtrip, enumerate=T.geo_sweeps(20000, 320000), nontrivial=_nt_geo, classes=T.tm_classes,
             shards_quick=8, shards_thorough=16,
             rule="stratified sweeps through the latitude band and the longitudes (20 000 / 320 000 points per line, lines fixed by the seed)"),
    SubCheck("grid_axis_sweeps", check_grid_roundtrip, enumerate=T.grid_sweeps(20000, 320000), nontrivial=_nt_grid, classes=_cls_grid,
             shards_quick=8, shards_thorough=16,
             rule="stratified sweeps through northings and eastings (20 000 / 320 000 points per line, lines fixed by the seed)"),
    SubCheck("geo_fill", check_geo_roundtrip, enumerate=T.geo_fill(60000, 1200000, salt=212), nontrivial=_nt_geo, classes=T.tm_classes,
             shards_quick=12, shards_thorough=16,
             rule="low-discrepancy fill of latitude x longitude / zone x offset x ellipsoid x projection: 60 000 / 1 200 000 points"),
    SubCheck("grid_fill", check_grid_roundtrip, enumerate=T.grid_fill(40000, 800000, salt=213), nontrivial=_nt_grid, classes=_cls_grid,
             shards_quick=12, shards_thorough=16,
             rule="low-discrepancy fill of zone x hemisphere x northing x easting x ellipsoid x projection: 40 000 / 800 000 points"),
    SubCheck("interleaved_calls", check_interleaved, strategy=interleaved_cases,
             nontrivial=lambda c: len({(str(o["ell"]), o["dir"]) for o in c["ops"]}) >= 3,
             classes=lambda c: ["ellipsoids:%d" % len({str(o["ell"]) for o in c["ops"]}), "calls:%d" % len(c["ops"])],
             quick=600, thorough=40000, shards_quick=3, shards_thorough=12, fresh=(8, 64, 3),
             rule="3..8 conversions in both directions on changing ellipsoids / projections, each judged against the exact projection"),
    SubCheck("hemisphere_mirror", check_mirror, strategy=T.grid_cases(prj_strategy=_fn1e7), nontrivial=_nt_grid, classes=_cls_grid,
             quick=2000, thorough=160000, shards_quick=2, shards_thorough=8,
             rule="grid2geo(z,E,N,'north') vs grid2geo(z,E,1e7-N,'south'): opposite latitude, same longitude (2e-11 deg)"),
    SubCheck("standalone_differential", check_standalone, strategy=_utm_grs80_south, nontrivial=_nt_grid,
             classes=_cls_grid, quick=2000, thorough=160000, shards_quick=2, shards_thorough=8,
             rule="Standalone/mga2gda.grid2geo vs library, southern UTM / GRS80, 1e-10 deg"),
    SubCheck("standalone_batch_file", check_standalone_batch,
             strategy=st.builds(lambda rows, ids: {"rows": rows, "ids": ids},
                                st.one_of(st.lists(_utm_grs80_south, min_size=1, max_size=5), st.lists(_utm_grs80_south, min_size=6, max_size=40)),
                                st.one_of(st.just([]), st.lists(st.sampled_from(["B7", "A1", "ALIC", "pt 3", "10", "9", "x,y", "A1"]),
                                                                min_size=1, max_size=6))),
             nontrivial=lambda c: any(_nt_grid(r) for r in c["rows"]), quick=300, thorough=20000, shards_quick=2, shards_thorough=8,
             rule="CSV rows through Standalone/mga2gda.grid2geoio: output rows parse back to the library's latitude / longitude within 1e-10 deg"),
    SubCheck("band_rejected", check_band_rejected, strategy=_outside_band, classes=T.tm_classes, quick=600, thorough=20000, shards_thorough=4,
             rule="latitudes outside [-80, 84] are rejected with an error in every call form (stated in the quantifier)"),
]
