"""C14 Grid-based geodesic computations agree with ellipsoid and projection."""
import math

from hypothesis import strategies as st

from .. import repo, strategies as S, tmcases as T
from ..core import SubCheck, Fail, Discard, metric, target, is_seq
from ..oracles import tm_exact, geodesic_exact as GX

RULE = ("zone 1..60 (longitudes kept inside [-180, 180]), both hemispheres, first point at lat -80..84 with easting 100 000..900 000 m, "
        "second point at any bearing, 1 m..100 km away, same hemisphere (or exactly on the equator), same or adjacent zone incl. zones "
        "60 <-> 1 across the antimeridian, lines crossing the central meridian; hemisphere spelled 'south' / 'South' / 'SOUTH' or left "
        "to its default, bearings as floats or angle objects; GRS80 (the grid functions' documented default) and the other shipped ellipsoids; non-trivial = line longer than 100 m")
ASSUMPTIONS = ["definition: grid distance = ellipsoidal (vincinv) distance x line scale factor, grid bearing = azimuth + convergence of "
               "the point's own zone (recomputed from the library's own inverse conversion and geodesic, which C02 / C05 / C10 decide), AND the "
               "exact geodesic (Gauss-Legendre oracle) from point 1 with the implied azimuth and distance must arrive at point 2 within 3 mm",
               "point scale factors along the line come from the exact-TM oracle (analytic derivative)",
               "second points are kept at least 1 km inside the hemisphere and the latitude band",
               "vincinv rounds distances to 1 mm and the conversions round to 0.1 mm: closure budget 0.5 + 2 x 0.07 mm < 1 mm"]

A_INVF = {"grs80": (6378137.0, 298.257222101), "wgs84": (6378137.0, 298.257223563), "ans": (6378160.0, 298.25),
          "intl24": (6378388.0, 297.0)}


def selftest():
    tm_exact.selftest()
    GX.selftest()


def _cm(zone):
    return -177.0 + (zone - 1) * 6.0


def _points(case):
    """Build both grid points from the case with the exact projection (4-decimal grid coordinates)."""
    a, invf = A_INVF[case["ell"]]
    z1 = case["zone"]
    lat1 = case["lat"]
    e1, n1, k1, g1 = tm_exact.project(lat1, _cm(z1) + case["dlon"], _cm(z1), a, invf, 0.9996, 500000.0, 10000000.0)
    e1, n1 = round(e1, 4), round(n1, 4)
    if not (100000.0 <= e1 <= 900000.0):
        raise Discard()
    b = math.radians(case["brg"])
    e2, n2 = e1 + case["dist"] * math.sin(b), n1 + case["dist"] * math.cos(b)
    south = lat1 < 0
    if case.get("on_equator"):
        # second point exactly on the equator, in the first point's hemisphere convention (northing 10 000 000 / 0)
        n2 = 10000000.0 if south else 0.0
        if abs(n2 - n1) > 100000.0:
            raise Discard()
    # keep the second point in the same hemisphere (on the equator or at least 1 km off it) and inside the band
    elif south and not (1120000.0 <= n2 <= 10000000.0 - 1000.0):
        raise Discard()
    elif not south and not (1000.0 <= n2 <= 9320000.0):
        raise Discard()
    if not (100000.0 <= e2 <= 900000.0):
        raise Discard()
    return z1, e1, n1, round(e2, 4), round(n2, 4), ("south" if south else "north")


def _setup(case):
    cv = repo.mod("geodepy.convert")
    ell = S.make_ellipsoid(case["ell"])
    z1, e1, n1, e2, n2, hemi = _points(case)
    lon1 = cv.grid2geo(z1, e1, n1, hemi, ell)[1]
    if not (-180.0 <= lon1 <= 180.0):
        raise Discard()
    z2 = z1
    lat2, lon2 = cv.grid2geo(z1, e2, n2, hemi, ell)[:2]
    if not (-180.0 + 1e-6 <= lon1 <= 180.0 - 1e-6):
        raise Discard()      # the quantifier excludes grid points whose longitude falls outside [-180, 180]
    if not case["adj"]:
        if not (-180.0 + 1e-6 <= lon2 <= 180.0 - 1e-6):
            raise Discard()
    else:
        # re-express point 2 in the neighbouring zone (towards the side it lies on); zones 60 and 1 are neighbours across the
        # antimeridian, where point 2 is given with its longitude brought back into [-180, 180]
        z2 = (z1 - 1 + (1 if lon2 >= _cm(z1) else -1)) % 60 + 1
        lon2 = (lon2 + 180.0) % 360.0 - 180.0
        if not (-180.0 + 1e-6 <= lon2 <= 180.0 - 1e-6):
            raise Discard()
        g = cv.geo2grid(lat2, lon2, z2, ell)
        e2, n2 = g[2], g[3]
        if g[0].lower() != hemi:
            raise Discard()
        own = cv.grid2geo(z2, e2, n2, hemi, ell)[1]
        if not (-180.0 + 1e-6 <= own <= 180.0 - 1e-6):
            raise Discard()      # given in zone z2 the point's longitude leaves [-180, 180]: excluded by the quantifier
    zk = case.get("zk", "int")
    if zk != "int":
        # zone numbers as they come out of a numpy table (np.int64 / np.int32): the same zones, another integral type
        import numpy as np
        t = np.int64 if zk == "np64" else np.int32
        z1, z2 = t(z1), t(z2)
    return cv, ell, z1, e1, n1, z2, e2, n2, hemi


def _hargs(case, hemi, ell):
    """Trailing (hemisphere, ellipsoid) arguments in the spelling / call form of the case: lower case, the documented
    'South' / 'North', upper case, or left to the defaults where the defaults are what the case asks for."""
    sp = case.get("hspell", "lower")
    word = {"lower": hemi, "Cap": hemi.capitalize(), "UPPER": hemi.upper(), "default": hemi.capitalize()}[sp]
    if sp == "default" and case["ell"] == "grs80":
        return ((), {}) if hemi == "south" else ((), {"hemisphere": word})
    return (word, ell), {}


def _angdiff(a, b):
    return abs((a - b + 180.0) % 360.0 - 180.0)


def check_inverse_definition(case):
    gd = repo.mod("geodepy.geodesy")
    cv, ell, z1, e1, n1, z2, e2, n2, hemi = _setup(case)
    ha, hk = _hargs(case, hemi, ell)
    got = gd.vincinv_utm(z1, e1, n1, z2, e2, n2, *ha, **hk)
    if not is_seq(got, 4):
        raise Fail("vincinv_utm did not return (grid distance, bearing 1->2, bearing 2->1, line scale factor)", observed=repr(got))
    gdist, b12, b21, lsf = got
    p1 = cv.grid2geo(z1, e1, n1, hemi, ell)
    p2 = cv.grid2geo(z2, e2, n2, hemi, ell)
    ed, a12, a21 = gd.vincinv(p1[0], p1[1], p2[0], p2[1], ell)
    # (the geodesic distance is reported to the millimetre and grid quantities to 0.1 mm: agreement to 0.2 mm + 1e-9 of the length)
    if not abs(gdist - ed * lsf) <= 2e-4 + 1e-9 * ed:
        raise Fail("grid distance is not the ellipsoidal geodesic distance multiplied by the line scale factor",
                   expected=ed * lsf, observed={"grid_dist": gdist, "ell_dist": ed, "lsf": lsf})
    if not (_angdiff(b12, a12 + p1[3]) <= 1e-9 and _angdiff(b21, a21 + p2[3]) <= 1e-9):
        raise Fail("grid bearings are not the geodetic azimuths plus the grid convergence at each end (each in its own zone)",
                   expected={"b12": a12 + p1[3], "b21": a21 + p2[3]}, observed={"b12": b12, "b21": b21})
    # "the ellipsoidal geodesic distance" and "the geodetic azimuths" are not whatever the library's own inverse says: following
    # the EXACT geodesic from point 1 with the azimuth (grid bearing - convergence) and the distance (grid distance / line scale
    # factor) that vincinv_utm implies must arrive at point 2 (2 mm of C05 + the 1 mm to which the distance is reported)
    a_, invf_ = A_INVF[case["ell"]]
    if lsf > 0 and gdist > 0:
        t_lat, t_lon, t_az = GX.direct(p1[0], p1[1], b12 - p1[3], gdist / lsf, a_, invf_)
        miss = GX.metric_distance(t_lat, t_lon, p2[0], p2[1], a_, invf_)
        metric("inverse_arrival_m", miss)
        if not miss <= 3e-3:
            raise Fail("the exact geodesic from point 1 with (grid bearing - convergence, grid distance / line scale factor) does not arrive at point 2",
                       expected={"lat2": p2[0], "lon2": p2[1], "tol_m": 3e-3},
                       observed={"grid_dist": gdist, "lsf": lsf, "bearing": b12, "convergence": p1[3], "arrive_lat": t_lat, "arrive_lon": t_lon,
                                 "miss_m": miss})
    lsf2 = gd.line_sf(z1, e1, n1, z2, e2, n2, *ha, **hk)
    if not abs(lsf2 - lsf) <= 1e-9:
        raise Fail("vincinv_utm's line scale factor is not line_sf of the same arguments", expected=lsf2, observed=lsf)
    # independent sanity of the grid bearing: plane bearing of the chord in zone 1 differs only by the arc-to-chord
    # correction, which is below 0.01 deg for lines up to 100 km inside a zone
    if z1 == z2 and case["dist"] > 100.0:
        plane = math.degrees(math.atan2(e2 - e1, n2 - n1)) % 360.0
        if _angdiff(b12, plane) > 0.05:
            raise Fail("grid bearing is far from the plane bearing of the grid line", expected=plane, observed=b12)


def check_direct_inverts(case):
    gd = repo.mod("geodepy.geodesy")
    cv, ell, z1, e1, n1, z2, e2, n2, hemi = _setup(case)
    ha, hk = _hargs(case, hemi, ell)
    gdist, b12, b21, lsf = gd.vincinv_utm(z1, e1, n1, z2, e2, n2, *ha, **hk)
    if gdist == 0:
        raise Discard()
    # point 2 in zone 1 (where the direct computation reports it); the quantifier excludes grid points whose longitude
    # falls outside [-180, 180], which is what a point across the antimeridian is when expressed in zone 1
    if z2 == z1:
        w_e, w_n = e2, n2
    else:
        p2 = cv.grid2geo(z2, e2, n2, hemi, ell)
        g = cv.geo2grid(p2[0], p2[1], z1, ell)
        w_e, w_n = g[2], g[3]
    if not (-180.0 + 1e-6 <= cv.grid2geo(z1, w_e, w_n, hemi, ell)[1] <= 180.0 - 1e-6):
        raise Discard()
    brg = b12
    if case.get("bkind", "float") != "float":
        brg = S.angle_obj(case["bkind"], b12 % 360.0)      # the bearing as an angle object (documented for vincdir_utm)
    got = gd.vincdir_utm(z1, e1, n1, brg, gdist, *ha, **hk)
    if not is_seq(got, 5):
        raise Fail("vincdir_utm did not return (zone, east, north, bearing 2->1, line scale factor)", observed=repr(got))
    zz, ee, nn, rb, lsf_d = got
    if zz != z1:
        raise Fail("vincdir_utm did not report the second point in the first point's zone", expected=z1, observed=zz)
    d = math.hypot(ee - w_e, nn - w_n)
    metric("direct_closure_m", d)
    target(d, "direct_closure")
    if not d <= 1e-3:
        raise Fail("the grid direct computation does not reproduce the second point within 1 mm from the inverse's bearing and distance",
                   expected={"east": w_e, "north": w_n}, observed={"east": ee, "north": nn, "miss_m": d, "bearing": b12, "grid_dist": gdist})
    if abs(lsf_d - lsf) > 1e-8:
        raise Fail("direct and inverse grid computations report different line scale factors", expected=lsf, observed=lsf_d)
    if z2 == z1 and case["dist"] > 10.0:
        if _angdiff(rb, b21) > 1e-6 + math.degrees(2e-3 / case["dist"]):
            raise Fail("direct and inverse grid computations report different reverse grid bearings", expected=b21, observed=rb)


def check_lsf_bounds(case):
    gd = repo.mod("geodepy.geodesy")
    cv, ell, z1, e1, n1, z2, e2, n2, hemi = _setup(case)
    a, invf = A_INVF[case["ell"]]
    ha, hk = _hargs(case, hemi, ell)
    lsf = gd.line_sf(z1, e1, n1, z2, e2, n2, *ha, **hk)
    # the projection named explicitly: the shipped UTM object, and a projection of the caller's own with the same five numbers
    c_ = repo.mod("geodepy.constants")
    for form, prj in (("the shipped utm object", c_.utm), ("an equal-valued Projection of the caller's", c_.Projection(500000, 10000000, 0.9996, 6, -177))):
        lsf_p = gd.line_sf(z1, e1, n1, z2, e2, n2, hemi, ell, prj) if form.startswith("the") else \
            gd.line_sf(z1, e1, n1, z2, e2, n2, hemisphere=hemi, ellipsoid=ell, projection=prj)
        if not abs(lsf_p - lsf) <= 1e-12:
            raise Fail("line_sf differs when the UTM projection is given explicitly as %s" % form, expected=lsf, observed=lsf_p,
                       bucket="line_sf projection form")
    if z2 != z1:
        p2 = cv.grid2geo(z2, e2, n2, hemi, ell)
        g = cv.geo2grid(p2[0], p2[1], z1, ell)
        e2, n2 = g[2], g[3]
    ks = []
    for t in (0.0, 0.25, 0.5, 0.75, 1.0):
        ee, nn = e1 + t * (e2 - e1), n1 + t * (n2 - n1)
        la, lo = cv.grid2geo(z1, ee, nn, hemi, ell)[:2]
        ks.append(tm_exact.project(la, lo, _cm(z1), a, invf, 0.9996, 500000.0, 10000000.0)[2])
    lo_, hi_ = min(ks), max(ks)
    simpson = (ks[0] + 4 * ks[2] + ks[4]) / 6.0
    metric("lsf_outside_range", max(lo_ - lsf, lsf - hi_, 0.0))
    metric("lsf_minus_simpson", abs(lsf - simpson))
    if not (lo_ - 3e-7 <= lsf <= hi_ + 3e-7):
        raise Fail("line scale factor is not between the smallest and largest point scale factor along the line (3e-7)",
                   expected={"min": lo_, "max": hi_}, observed={"lsf": lsf})
    if not abs(lsf - simpson) <= 5e-7:
        raise Fail("line scale factor differs from the Simpson mean of the point scale factors by more than 5e-7",
                   expected=simpson, observed={"lsf": lsf, "k": ks})


# ------------------------------------------------------------------------------------------------ generators

_unit = S.floats(0.0, 1.0)


@st.composite
def lines(draw, ell_strategy=None):
    zone = draw(st.integers(1, 60))
    lat = draw(st.one_of(S.floats(-79.0, 83.0), S.floats(-79.0, 83.0), S.floats(-60.0, -5.0), st.sampled_from([-37.8, 45.0, -1.0, 1.0])))
    if abs(lat) < 0.05:
        lat = math.copysign(0.05, lat if lat != 0 else 1.0)
    sel = draw(st.integers(0, 4))
    if sel == 0:      # near the central meridian (lines that cross it)
        dlon = (draw(_unit) * 2 - 1) * 0.2
    elif sel in (1, 2):
        dlon = (draw(_unit) * 2 - 1) * 3.5
    else:
        # anywhere in the 100 000 .. 900 000 m easting range, which is wider than a zone away from the equator
        dmax = math.degrees(400000.0 / (0.9996 * 6378137.0 * max(math.cos(math.radians(lat)), 0.05)))
        dlon = (draw(_unit) * 2 - 1) * min(dmax, 25.0)
    dist = draw(st.one_of(S.log_uniform(1.0, 1e5), S.log_uniform(1e3, 1e5), st.sampled_from([1.0, 100.0, 1e5, 54972.271])))
    brg = draw(st.one_of(S.floats(0.0, 360.0), st.sampled_from([0.0, 90.0, 180.0, 270.0, 45.0, 306.52])))
    ell = draw(ell_strategy if ell_strategy is not None else st.sampled_from(["grs80", "grs80", "grs80", "wgs84", "ans", "intl24"]))
    adj = draw(st.integers(0, 9)) < 4
    if draw(st.integers(0, 14)) == 0:
        # a line across the antimeridian: first point in zone 60 (1) just short of 180 deg, second point beyond it, given in zone 1 (60)
        zone = draw(st.sampled_from([1, 60]))
        sgn = 1.0 if zone == 60 else -1.0
        dlon = sgn * (3.0 - draw(S.log_uniform(1e-4, 0.5)))
        brg = (90.0 if zone == 60 else 270.0) + draw(S.floats(-60.0, 60.0))
        dist = draw(S.log_uniform(2e3, 1e5))
        adj = True
    on_eq = draw(st.integers(0, 11)) == 0
    if on_eq:
        lat = math.copysign(draw(S.floats(0.06, 0.85)), lat)      # first point within 100 km of the equator
    return {"zone": zone, "lat": lat, "dlon": dlon, "dist": dist, "brg": brg, "ell": ell, "adj": adj, "on_equator": on_eq,
            "hspell": draw(st.sampled_from(["lower", "lower", "Cap", "Cap", "UPPER", "default"])),
            "zk": draw(st.sampled_from(["int", "int", "int", "np64", "np32"])),
            "bkind": draw(st.sampled_from(["float", "float", "float", "dms", "ddm", "hpa", "deca", "gona"]))}


def _nt(case):
    return case["dist"] > 100.0


def _classes(case):
    out = ["ell:" + case["ell"], "hemi:" + ("south" if case["lat"] < 0 else "north"), "adjacent-zone" if case["adj"] else "same-zone"]
    d = case["dist"]
    out.append("d<100m" if d < 100 else ("d<10km" if d < 1e4 else "d>=10km"))
    if abs(case["dlon"]) < 0.2:
        out.append("near-cm")
    if abs(case["lat"]) > 70:
        out.append("high-lat")
    if case.get("on_equator"):
        out.append("second-point-on-equator")
    out.append("hemisphere:" + case.get("hspell", "lower"))
    out.append("bearing:" + case.get("bkind", "float"))
    if abs(case["dlon"]) > 3.5:
        out.append("beyond-zone-width")
    if case["adj"] and ((case["zone"] == 60 and case["dlon"] > 2.0 and 0 < case["brg"] % 360 < 180) or
                        (case["zone"] == 1 and case["dlon"] < -2.0 and 180 < case["brg"] % 360 < 360)):
        out.append("towards-antimeridian (zones 60 <-> 1)")
    return out


GROUPS = [["zone"], ["lat", "dlon", "on_equator"], ["dist", "brg"], ["ell", "hspell"], ["adj"], ["bkind"]]


def _fill_build(u):
    lat = -79.0 + 162.0 * u[0]
    if abs(lat) < 0.05:
        lat = math.copysign(0.05, lat if lat != 0 else 1.0)
    zone, r = S.u_pick(u[4], list(range(2, 60)))
    ell, r = S.u_pick(r, ["grs80", "grs80", "wgs84", "ans", "intl24"])
    return {"zone": zone, "lat": lat, "dlon": -3.5 + 7.0 * u[1], "dist": 10.0 ** (5.0 * u[2]), "brg": 360.0 * u[3], "ell": ell,
            "adj": r < 0.4, "on_equator": False, "hspell": "lower", "bkind": "float"}


def _sweep_lines(rnd):
    """The bearing circle (two lines), the first point's latitude, its offset from the central meridian and the distance (log-spaced
    1 m .. 100 km) walked on lattices; the other quantities fixed per line by the seed; same-zone and adjacent-zone second points."""
    out = []
    for k in range(5):
        base = {"zone": rnd.randrange(2, 60), "lat": rnd.choice([rnd.uniform(-79.0, -1.0), rnd.uniform(1.0, 83.0)]),
                "dlon": rnd.uniform(-3.0, 3.0), "dist": 10.0 ** rnd.uniform(2.0, 5.0), "brg": rnd.uniform(0.0, 360.0),
                "ell": rnd.choice(["grs80", "grs80", "wgs84", "ans", "intl24"]), "adj": rnd.random() < 0.4, "on_equator": False,
                "hspell": "lower", "bkind": "float"}
        if k < 2:
            out.append((1.0, lambda f, b=base: dict(b, brg=360.0 * f)))
        elif k == 2:
            out.append((1.0, lambda f, b=base: dict(b, lat=(-79.0 + 78.0 * 2 * f) if f < 0.5 else (1.0 + 82.0 * (2 * f - 1)))))
        elif k == 3:
            out.append((1.0, lambda f, b=base: dict(b, dlon=-3.5 + 7.0 * f)))
        else:
            out.append((1.0, lambda f, b=base: dict(b, dist=10.0 ** (5.0 * f))))
    return out


def _ends_on_equator(case):
    """Matcher of the open finding 'vincdir_utm towards a point exactly on the equator' (see known_findings.json)."""
    if "seq" in case:       # (a whole recorded sequence, e.g. a corpus entry)
        return any(c.get("on_equator") for c in case["seq"])
    return bool(case.get("on_equator"))


SUBCHECKS = [
    SubCheck("inverse_is_definition", check_inverse_definition, strategy=lines(), nontrivial=_nt, classes=_classes,
             quick=1200, thorough=60000, shards_quick=4, shards_thorough=16, seq_groups=GROUPS,
             fresh=(8, 64, 3), rule="vincinv_utm = (vincinv distance x line_sf, azimuths + convergence of each point's own zone)"),
    SubCheck("direct_inverts_inverse", check_direct_inverts, strategy=lines(), nontrivial=_nt, classes=_classes,
             quick=1000, thorough=50000, shards_quick=4, shards_thorough=16, seq_groups=GROUPS,
             matchers={"ends_on_equator": _ends_on_equator},
             fresh=(8, 64, 3), rule="vincdir_utm with the inverse's bearing and grid distance reproduces point 2 (in zone 1) within 1 mm"),
    SubCheck("inverse_axis_sweeps", check_inverse_definition, enumerate=S.sweeps(1414, _sweep_lines, 4000, 80000), nontrivial=_nt,
             classes=_classes, shards_quick=12, shards_thorough=16,
             rule="stratified sweeps of bearing (2 lines), latitude, offset from the central meridian and distance (4 000 / 80 000 lattice points per line, seeded)"),
    SubCheck("direct_axis_sweeps", check_direct_inverts, enumerate=S.sweeps(1415, _sweep_lines, 4000, 80000), nontrivial=_nt,
             classes=_classes, shards_quick=12, shards_thorough=16, matchers={"ends_on_equator": _ends_on_equator},
             rule="the same sweeps through vincinv_utm -> vincdir_utm (1 mm)"),
    SubCheck("inverse_fill", check_inverse_definition, enumerate=S.fill(1424, 5, _fill_build, 20000, 400000), nontrivial=_nt,
             classes=_classes, shards_quick=12, shards_thorough=16,
             rule="low-discrepancy fill of latitude x offset from the central meridian x distance (log) x bearing x zone / ellipsoid / same or adjacent zone: 20 000 / 400 000 lines"),
    SubCheck("direct_fill", check_direct_inverts, enumerate=S.fill(1425, 5, _fill_build, 20000, 400000), nontrivial=_nt,
             classes=_classes, shards_quick=12, shards_thorough=16, matchers={"ends_on_equator": _ends_on_equator},
             rule="the same fill (another seeded point set) through vincinv_utm -> vincdir_utm (1 mm)"),
    SubCheck("line_scale_factor_bounds", check_lsf_bounds, strategy=lines(), nontrivial=_nt, classes=_classes,
             quick=1200, thorough=60000, shards_quick=4, shards_thorough=16, seq_groups=GROUPS,
             rule="min k - 3e-7 <= lsf <= max k + 3e-7 and |lsf - Simpson mean| <= 5e-7 with k from the exact projection at 0, 1/4, 1/2, 3/4, 1"),
]
