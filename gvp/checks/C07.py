"""C07 14-parameter transformation advances parameters linearly in time."""
import datetime
import math

from hypothesis import strategies as st

from .. import repo, strategies as S, trcases as TR
from ..core import SubCheck, Fail, Discard, metric, target
from ..oracles import helmert_ref as H

RULE = ("every shipped set with a date reference epoch (complete enumeration x epoch fan) and random sets with random rates; "
        "epochs 1980-01-01 .. 2060-12-31 incl. the reference epoch, the days around it, leap days; points with |x|,|y|,|z| <= 1e7 m; "
        "short call sequences that re-use the epoch with another set (and the set with another epoch); "
        "non-trivial = epoch != reference epoch and a non-zero rate")
ASSUMPTIONS = ["reference: the exact 7-parameter formula of C06 with p + rate x days / 365.25 (days = calendar days between the dates)",
               "random sets keep |rotation| + |rate| x 81 years below 60 arcsec (the 7-parameter formula's stated domain)"]

EPOCH_LO = datetime.date(1980, 1, 1).toordinal()
EPOCH_HI = datetime.date(2060, 12, 31).toordinal()
CATALOGUE_EPOCHS = [(1988, 1, 1), (1994, 1, 1), (1997, 1, 1), (2000, 1, 1), (2010, 1, 1), (2015, 1, 1), (2020, 1, 1)]
SPECIAL = CATALOGUE_EPOCHS + [(1980, 1, 1), (2060, 12, 31), (2000, 2, 29), (2024, 2, 29), (2019, 12, 31), (2020, 1, 2),
                              (1993, 12, 31), (2014, 12, 31), (2015, 1, 2), (2017, 7, 1)]


def selftest():
    H.selftest()


def _date(e):
    return datetime.date(*e)


def _advanced(tr, epoch):
    dt = (epoch - tr.ref_epoch).days / 365.25
    p = TR.params_of(tr)
    r = TR.rates_of(tr)
    return tuple(a + b * dt for a, b in zip(p, r)), dt


def _dist(a, b):
    return math.sqrt(sum((float(x) - float(y)) ** 2 for x, y in zip(a, b)))


def _trans(case):
    tr = TR.make_trans(case["trans"])
    if not isinstance(tr.ref_epoch, datetime.date):
        raise Discard()
    return tr


def check_linear(case):
    tf = repo.mod("geodepy.transform")
    tr = _trans(case)
    epoch = _date(case["epoch"])
    X = case["X"]
    p, dt = _advanced(tr, epoch)
    got = tf.conform14(X[0], X[1], X[2], epoch, tr)
    if not (isinstance(got, tuple) and len(got) == 4):
        raise Fail("conform14 did not return (x, y, z, vcv)", observed=repr(got))
    want = H.apply_float(p, X)
    d = _dist(got[:3], want)
    metric("linear_err_m", d)
    target(d, "linear_err")
    if not d <= 2e-6:
        raise Fail("conform14 differs from the 7-parameter formula with parameters advanced by rate x days/365.25 by more than 2 um",
                   expected={"xyz": want, "params_at_epoch": p, "years": dt}, observed={"xyz": got[:3], "dist_m": d})
    if epoch == tr.ref_epoch:
        c7 = tf.conform7(X[0], X[1], X[2], tr)
        d7 = _dist(got[:3], c7[:3])
        if not d7 <= 2e-6:
            raise Fail("at the reference epoch conform14 does not reduce to conform7", expected=c7[:3], observed=got[:3])


def check_reverse(case):
    tf = repo.mod("geodepy.transform")
    tr = _trans(case)
    epoch = _date(case["epoch"])
    X = case["X"]
    p, dt = _advanced(tr, epoch)
    a = tf.conform14(X[0], X[1], X[2], epoch, tr)
    b = tf.conform14(a[0], a[1], a[2], epoch, -tr)
    d = _dist(b[:3], X)
    bound = H.second_order_bound(p, X) + 2e-6
    metric("there_and_back_over_bound", d / bound)
    if not d <= bound:
        raise Fail("a set and then its negation at the same epoch do not return within the second-order bound",
                   expected={"xyz": X, "bound_m": bound}, observed={"xyz": b[:3], "dist_m": d})


def check_atrf(case):
    tf = repo.mod("geodepy.transform")
    c = repo.mod("geodepy.constants")
    epoch = _date(case["epoch"])
    X = case["X"]
    fwd = tf.transform_atrf2014_to_gda2020(X[0], X[1], X[2], epoch)
    ref = tf.conform14(X[0], X[1], X[2], epoch, c.atrf2014_to_gda2020)
    if tuple(fwd[:3]) != tuple(ref[:3]):
        raise Fail("transform_atrf2014_to_gda2020 is not conform14 with the plate-motion set", expected=ref[:3], observed=fwd[:3])
    p, dt = _advanced(c.atrf2014_to_gda2020, epoch)
    want = H.apply_float(p, X)
    d0 = _dist(fwd[:3], want)
    if not d0 <= 2e-6:
        raise Fail("ATRF2014 -> GDA2020 differs from the plate-motion formula by more than 2 um",
                   expected=want, observed={"xyz": fwd[:3], "dist_m": d0})
    back = tf.transform_gda2020_to_atrf2014(fwd[0], fwd[1], fwd[2], epoch)
    ref2 = tf.conform14(fwd[0], fwd[1], fwd[2], epoch, -c.atrf2014_to_gda2020)
    if tuple(back[:3]) != tuple(ref2[:3]):
        raise Fail("transform_gda2020_to_atrf2014 is not conform14 with the negated plate-motion set", expected=ref2[:3], observed=back[:3])
    d = _dist(back[:3], X)
    bound = H.second_order_bound(p, X) + 2e-6
    metric("atrf_there_and_back_m", d)
    if not d <= bound:
        raise Fail("ATRF2014 <-> GDA2020 are not mutual inverses within the second-order bound",
                   expected={"xyz": X, "bound_m": bound}, observed={"xyz": back[:3], "dist_m": d})
    if epoch == datetime.date(2020, 1, 1):
        if tuple(float(v) for v in fwd[:3]) != tuple(float(v) for v in X):
            raise Fail("ATRF2014 -> GDA2020 is not exactly the identity at epoch 2020.0", expected=X, observed=fwd[:3])
        b0 = tf.transform_gda2020_to_atrf2014(X[0], X[1], X[2], epoch)
        if tuple(float(v) for v in b0[:3]) != tuple(float(v) for v in X):
            raise Fail("GDA2020 -> ATRF2014 is not exactly the identity at epoch 2020.0", expected=X, observed=b0[:3])


# ------------------------------------------------------------------------------------------------ generators

def _epoch():
    rnd = st.integers(EPOCH_LO, EPOCH_HI).map(lambda o: list(datetime.date.fromordinal(o).timetuple()[:3]))
    return st.one_of(rnd, rnd, st.sampled_from([list(e) for e in SPECIAL]))


def _shipped():
    return st.sampled_from(TR.shipped_dated_names()).map(lambda n: {"name": n})


@st.composite
def _random_set(draw):
    ep = draw(st.sampled_from(CATALOGUE_EPOCHS + [(2005, 6, 15)]))
    p = draw(TR.random_p7())
    p[4:] = [v * 0.5 for v in p[4:]]                     # |r| < 30 arcsec
    rates = [draw(S.floats(-0.05, 0.05)) for _ in range(3)] + [draw(S.floats(-0.01, 0.01))] + \
            [draw(S.floats(-0.3, 0.3)) for _ in range(3)]   # 0.3 arcsec/yr x 81 yr < 25 arcsec
    # the two shipped ITRF2020 -> ITRF2014 sets share their labels; random sets sometimes re-use catalogue labels too
    lab = draw(st.sampled_from([("A", "B"), ("ITRF2020", "ITRF2014"), ("ITRF2014", "GDA2020"), ("X", "Y")]))
    return {"p": p, "rates": rates, "epoch": list(ep), "from": lab[0], "to": lab[1], "sd": None}


cases = st.fixed_dictionaries({"trans": st.one_of(st.deferred(_shipped), st.deferred(_shipped), _random_set()),
                               "epoch": _epoch(), "X": TR.point(1e7)})
atrf_cases = st.fixed_dictionaries({"epoch": _epoch(), "X": TR.point(1e7)})


def enumerate_shipped(tier, seed, shard, nshards):
    """Every dated shipped set at every special epoch (same epoch for all sets in a row, so sets that share labels meet)."""
    import random
    rnd = random.Random(seed * 104729 + 7)
    names = TR.shipped_dated_names()
    pts = [[-4052051.7643, 4212836.2017, -2545106.0245], [1e7, -1e7, 1e7], [6378137.0, 0.0, 0.0], [0.0, 0.0, -6356752.3]]
    epochs = list(SPECIAL)
    extra = 6 if tier == "quick" else 80
    for _ in range(extra):
        epochs.append(datetime.date.fromordinal(rnd.randint(EPOCH_LO, EPOCH_HI)).timetuple()[:3])
    for i, e in enumerate(epochs):
        if i % nshards != shard:
            continue
        order = list(names)
        if i % 2:
            order.reverse()
        for n in order:
            X = pts[(i + len(n)) % len(pts)] if tier == "quick" else [rnd.uniform(-1e7, 1e7) for _ in range(3)]
            yield {"trans": {"name": n}, "epoch": list(e), "X": X}


def _nt(case):
    tr = TR.make_trans(case["trans"]) if "trans" in case else repo.mod("geodepy.constants").atrf2014_to_gda2020
    if not isinstance(tr.ref_epoch, datetime.date):
        return False
    return _date(case["epoch"]) != tr.ref_epoch and any(v != 0 for v in TR.rates_of(tr))


def _classes(case):
    out = []
    if "trans" in case:
        out.append("set:shipped" if "name" in case["trans"] else "set:random")
        tr = TR.make_trans(case["trans"])
        e = _date(case["epoch"])
        if isinstance(tr.ref_epoch, datetime.date):
            out.append("at-ref-epoch" if e == tr.ref_epoch else ("before-ref" if e < tr.ref_epoch else "after-ref"))
    if tuple(case["epoch"][1:]) == (2, 29):
        out.append("leap-day")
    return out


SUBCHECKS = [
    SubCheck("linear_shipped_sets", check_linear, enumerate=enumerate_shipped, nontrivial=_nt, classes=_classes,
             shards_quick=2, shards_thorough=8, exhaustive="both",
             rule="all dated shipped sets x special + random epochs in one process: conform14 vs formula with advanced parameters, 2 um"),
    SubCheck("linear_generated", check_linear, strategy=cases, nontrivial=_nt, classes=_classes,
             quick=2500, thorough=250000, shards_quick=3, shards_thorough=12, seq_groups=[["trans"], ["epoch"], ["X"]],
             rule="(shipped | random sets) x epochs x points, with call sequences sharing the epoch or the set"),
    SubCheck("reverse_generated", check_reverse, strategy=cases, nontrivial=_nt, classes=_classes,
             quick=2500, thorough=200000, shards_quick=3, shards_thorough=12, seq_groups=[["trans"], ["epoch"], ["X"]],
             rule="T then -T at the same epoch within the second-order bound of the advanced parameters (+2 um)"),
    SubCheck("atrf_gda2020", check_atrf, strategy=atrf_cases, nontrivial=lambda c: tuple(c["epoch"]) != (2020, 1, 1),
             classes=_classes, quick=2500, thorough=200000, shards_quick=3, shards_thorough=12,
             rule="ATRF2014 <-> GDA2020 = conform14 with +-plate-motion set; mutual inverses within the bound; exact identity at 2020-01-01"),
]
