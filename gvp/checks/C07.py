"""C07 14-parameter transformation advances parameters linearly in time."""
import datetime
import math

import numpy as np

from hypothesis import strategies as st

from .. import repo, strategies as S, trcases as TR
from ..core import SubCheck, Fail, Discard, metric, target, is_seq
from ..oracles import helmert_ref as H

RULE = ("every shipped set with a date reference epoch (complete enumeration x epoch fan) and random sets with random rates; "
        "epochs 1980-01-01 .. 2060-12-31 incl. the reference epoch, the days around it, leap days; points with |x|,|y|,|z| <= 1e7 m; "
        "short call sequences that re-use the epoch with another set (and the set with another epoch); random sets with and without "
        "(rate) uncertainties; a covariance through conform14 and both ATRF wrappers in a third of the cases; "
        "non-trivial = epoch != reference epoch and a non-zero rate")
ASSUMPTIONS = ["reference: the exact 7-parameter formula of C06 with p + rate x days / 365.25 (days = calendar days between the dates)",
               "random sets keep |rotation| + |rate| x 81 years below 60 arcsec (the 7-parameter formula's stated domain)"]

EPOCH_LO = datetime.date(1980, 1, 1).toordinal()
EPOCH_HI = datetime.date(2060, 12, 31).toordinal()
CATALOGUE_EPOCHS = [(1988, 1, 1), (1994, 1, 1), (1997, 1, 1), (2000, 1, 1), (2010, 1, 1), (2015, 1, 1), (2020, 1, 1)]
SPECIAL = CATALOGUE_EPOCHS + [(1980, 1, 1), (2060, 12, 31), (2000, 2, 29), (2024, 2, 29), (2019, 12, 31), (2020, 1, 2),
                              (1993, 12, 31), (2014, 12, 31), (2015, 1, 2), (2017, 7, 1)]


def selftest():
    H.selftest()


def _date(e):
    return datetime.date(*e)


def _advanced(tr, epoch, spec=None):
    """Parameters at the epoch.  For generated sets the values and the reference epoch come from the generated spec (and the
    object must hold exactly those), for shipped sets from the constant."""
    if spec is not None and "name" not in spec:
        p = TR.expected_params(spec, tr)
        r = TR.spec_values(spec)[1]
        ref = _date(spec["epoch"])
        if tr.ref_epoch != ref:
            raise Fail("a Transformation does not hold the reference epoch it was constructed with", expected=ref, observed=tr.ref_epoch)
    else:
        p, r, ref = TR.params_of(tr), TR.rates_of(tr), tr.ref_epoch
    dt = (epoch - ref).days / 365.25
    return tuple(a + b * dt for a, b in zip(p, r)), dt


def _dist(a, b):
    return math.sqrt(sum((float(x) - float(y)) ** 2 for x, y in zip(a, b)))


def _trans(case):
    tr = TR.make_trans(case["trans"])
    if not isinstance(tr.ref_epoch, datetime.date):
        raise Discard()
    return tr


def _point(case):
    """(the point as floats for the reference, the point as the caller hands it over): whole metres as Python ints or numpy
    integers, numpy float64, or plain floats."""
    X = case["X"]
    nk = case.get("num", "float")
    if nk in ("int", "npint"):
        X = [float(round(v)) for v in X]
        return X, [int(v) if nk == "int" else np.int64(int(v)) for v in X]
    if nk == "np64":
        return X, [np.float64(v) for v in X]
    return X, X


def check_linear(case):
    tf = repo.mod("geodepy.transform")
    tr = _trans(case)
    epoch = _date(case["epoch"])
    X, A = _point(case)
    p, dt = _advanced(tr, epoch, case["trans"])
    got = tf.conform14(A[0], A[1], A[2], epoch, tr)
    if not is_seq(got, 4):
        raise Fail("conform14 did not return (x, y, z, vcv)", observed=repr(got))
    want = H.apply_float(p, X)
    d = _dist(got[:3], want)
    metric("linear_err_m", d)
    target(d, "linear_err")
    if not d <= 2e-6:
        raise Fail("conform14 differs from the 7-parameter formula with parameters advanced by rate x days/365.25 by more than 2 um",
                   expected={"xyz": want, "params_at_epoch": p, "years": dt}, observed={"xyz": got[:3], "dist_m": d})
    if epoch == tr.ref_epoch:
        c7 = tf.conform7(X[0], X[1], X[2], tr)
        d7 = _dist(got[:3], c7[:3])
        if not d7 <= 2e-6:
            raise Fail("at the reference epoch conform14 does not reduce to conform7", expected=c7[:3], observed=got[:3])
    if case.get("vcv") is not None:
        _with_covariance(tf, tr, epoch, X, np.array(case["vcv"], dtype=float), got)


def _same_cov(a, b):
    if a is None or b is None:
        return a is None and b is None
    a, b = np.asarray(a, dtype=float), np.asarray(b, dtype=float)
    return a.shape == b.shape and TR.fro(a - b) <= 1e-9 * (TR.fro(b) + 1e-300)


def _with_covariance(tf, tr, epoch, X, V, plain):
    """A covariance travelling with the point: the point is transformed as without it, and the covariance is what the
    7-parameter operation returns for the set brought to the epoch (conform14 is that operation)."""
    got = tf.conform14(X[0], X[1], X[2], epoch, tr, V)
    if not is_seq(got, 4):
        raise Fail("conform14 with a covariance did not return (x, y, z, vcv)", observed=repr(got))
    if not _dist(got[:3], plain[:3]) <= 2e-6:
        raise Fail("supplying a covariance to conform14 changes the transformed point", expected=plain[:3], observed=got[:3],
                   bucket="conform14 vcv changes point")
    ref = tf.conform7(X[0], X[1], X[2], tr + epoch, V)
    if not _same_cov(got[3], ref[3]):
        raise Fail("conform14's covariance is not the one the 7-parameter operation returns for the set advanced to the epoch",
                   expected=ref[3], observed=got[3], bucket="conform14 vcv")
    if tr.tf_sd is not None:
        out = got[3]
        if out is None or np.shape(out) != (3, 3):
            raise Fail("conform14 with a covariance and a set with uncertainties returned no 3x3 covariance", observed=repr(out),
                       bucket="conform14 vcv missing")
        sc = TR.fro(out) + 1e-300
        if TR.fro(out - out.T) > 1e-12 * sc or float(np.linalg.eigvalsh((out + out.T) / 2).min()) < -1e-12 * sc:
            raise Fail("conform14's covariance is not symmetric positive semi-definite", observed=out, bucket="conform14 vcv psd")
    # the way back with what the first call returned: the point AND its covariance (symmetric to rounding only, as the library hands
    # it out) go into the negated set at the same epoch; the point comes back as it does without a covariance
    back = tf.conform14(got[0], got[1], got[2], epoch, -tr, got[3])
    back_plain = tf.conform14(got[0], got[1], got[2], epoch, -tr)
    if not is_seq(back, 4) or not _dist(back[:3], back_plain[:3]) <= 2e-6:
        raise Fail("the negated set, fed with the point and covariance the forward call returned, does not return the point it returns "
                   "without the covariance", expected=back_plain[:3], observed=repr(back), bucket="chained covariance")
    ref2 = tf.conform7(got[0], got[1], got[2], (-tr) + epoch, got[3])
    if not _same_cov(back[3], ref2[3]):
        raise Fail("the covariance returned by conform14 and fed into the negated set is not carried as the 7-parameter operation "
                   "carries it", expected=ref2[3], observed=back[3], bucket="chained covariance")


def check_reverse(case):
    tf = repo.mod("geodepy.transform")
    tr = _trans(case)
    epoch = _date(case["epoch"])
    X = case["X"]
    p, dt = _advanced(tr, epoch, case["trans"])
    a = tf.conform14(X[0], X[1], X[2], epoch, tr)
    b = tf.conform14(a[0], a[1], a[2], epoch, -tr)
    d = _dist(b[:3], X)
    bound = H.second_order_bound(p, X) + 2e-6
    metric("there_and_back_over_bound", d / bound)
    if not d <= bound:
        raise Fail("a set and then its negation at the same epoch do not return within the second-order bound",
                   expected={"xyz": X, "bound_m": bound}, observed={"xyz": b[:3], "dist_m": d})


def check_atrf(case):
    tf = repo.mod("geodepy.transform")
    c = repo.mod("geodepy.constants")
    epoch = _date(case["epoch"])
    X, A = _point(case)
    if case.get("vcv") is not None:
        V = np.array(case["vcv"], dtype=float)
        for fn, tset, nm in ((tf.transform_atrf2014_to_gda2020, c.atrf2014_to_gda2020, "transform_atrf2014_to_gda2020"),
                             (tf.transform_gda2020_to_atrf2014, -c.atrf2014_to_gda2020, "transform_gda2020_to_atrf2014")):
            w = fn(X[0], X[1], X[2], epoch, V)
            r = tf.conform14(X[0], X[1], X[2], epoch, tset, V)
            if not _dist(w[:3], r[:3]) <= 2e-6 or not _same_cov(w[3], r[3]):
                raise Fail("%s with a covariance is not conform14 with the (negated) plate-motion set and that covariance" % nm,
                           expected={"xyz": r[:3], "vcv": r[3]}, observed={"xyz": w[:3], "vcv": w[3]}, bucket="atrf wrapper vcv")
            # ... and what it returned goes straight into the opposite function
            other = tf.transform_gda2020_to_atrf2014 if fn is tf.transform_atrf2014_to_gda2020 else tf.transform_atrf2014_to_gda2020
            w2 = other(w[0], w[1], w[2], epoch, w[3])
            r2 = tf.conform14(w[0], w[1], w[2], epoch, -tset, w[3])
            if not is_seq(w2, 4) or not _dist(w2[:3], r2[:3]) <= 2e-6 or not _same_cov(w2[3], r2[3]):
                raise Fail("the point and covariance returned by %s, fed into the opposite function, are not transformed as conform14 "
                           "with the negated set transforms them" % nm, expected={"xyz": r2[:3], "vcv": r2[3]}, observed=repr(w2),
                           bucket="chained covariance")
            if not _dist(w2[:3], X) <= H.second_order_bound(_advanced(c.atrf2014_to_gda2020, epoch)[0], X) + 2e-6:
                raise Fail("ATRF2014 <-> GDA2020 with a covariance travelling along are not mutual inverses within the second-order bound",
                           expected=X, observed=w2[:3], bucket="chained covariance")
    fwd = tf.transform_atrf2014_to_gda2020(A[0], A[1], A[2], epoch)
    ref = tf.conform14(X[0], X[1], X[2], epoch, c.atrf2014_to_gda2020)
    if not _dist(fwd[:3], ref[:3]) <= 2e-6:
        raise Fail("transform_atrf2014_to_gda2020 is not conform14 with the plate-motion set", expected=ref[:3], observed=fwd[:3])
    p, dt = _advanced(c.atrf2014_to_gda2020, epoch)
    want = H.apply_float(p, X)
    d0 = _dist(fwd[:3], want)
    if not d0 <= 2e-6:
        raise Fail("ATRF2014 -> GDA2020 differs from the plate-motion formula by more than 2 um",
                   expected=want, observed={"xyz": fwd[:3], "dist_m": d0})
    back = tf.transform_gda2020_to_atrf2014(fwd[0], fwd[1], fwd[2], epoch)
    ref2 = tf.conform14(fwd[0], fwd[1], fwd[2], epoch, -c.atrf2014_to_gda2020)
    if not _dist(back[:3], ref2[:3]) <= 2e-6:
        raise Fail("transform_gda2020_to_atrf2014 is not conform14 with the negated plate-motion set", expected=ref2[:3], observed=back[:3])
    d = _dist(back[:3], X)
    bound = H.second_order_bound(p, X) + 2e-6
    metric("atrf_there_and_back_m", d)
    if not d <= bound:
        raise Fail("ATRF2014 <-> GDA2020 are not mutual inverses within the second-order bound",
                   expected={"xyz": X, "bound_m": bound}, observed={"xyz": back[:3], "dist_m": d})
    if epoch == datetime.date(2020, 1, 1):
        if tuple(float(v) for v in fwd[:3]) != tuple(float(v) for v in X):
            raise Fail("ATRF2014 -> GDA2020 is not exactly the identity at epoch 2020.0", expected=X, observed=fwd[:3])
        b0 = tf.transform_gda2020_to_atrf2014(X[0], X[1], X[2], epoch)
        if tuple(float(v) for v in b0[:3]) != tuple(float(v) for v in X):
            raise Fail("GDA2020 -> ATRF2014 is not exactly the identity at epoch 2020.0", expected=X, observed=b0[:3])


# ------------------------------------------------------------------------------------------------ generators

def _epoch():
    rnd = st.integers(EPOCH_LO, EPOCH_HI).map(lambda o: list(datetime.date.fromordinal(o).timetuple()[:3]))
    return st.one_of(rnd, rnd, st.sampled_from([list(e) for e in SPECIAL]))


def _shipped():
    return st.sampled_from(TR.shipped_dated_names()).map(lambda n: {"name": n})


@st.composite
def _random_set(draw):
    ep = draw(st.one_of(st.sampled_from(CATALOGUE_EPOCHS + [(2005, 6, 15), (2000, 2, 29), (1999, 12, 31), (2024, 2, 29)]),
                        st.integers(datetime.date(1985, 1, 1).toordinal(), datetime.date(2030, 12, 31).toordinal()).map(
                            lambda o: datetime.date.fromordinal(o).timetuple()[:3])))
    p = draw(TR.random_p7())
    p[4:] = [v * 0.5 for v in p[4:]]                     # |r| < 30 arcsec
    rates = [draw(S.floats(-0.05, 0.05)) for _ in range(3)] + [draw(S.floats(-0.01, 0.01))] + \
            [draw(S.floats(-0.3, 0.3)) for _ in range(3)]   # 0.3 arcsec/yr x 81 yr < 25 arcsec
    # the two shipped ITRF2020 -> ITRF2014 sets share their labels; random sets sometimes re-use catalogue labels too
    lab = draw(st.sampled_from([("A", "B"), ("ITRF2020", "ITRF2014"), ("ITRF2014", "GDA2020"), ("X", "Y")]))
    sd = sdr = None
    if draw(st.integers(0, 2)) == 0:
        # a set that carries parameter uncertainties and rate uncertainties (the uncertainty branch of T + epoch)
        sd = draw(TR.random_sd7())
        sdr = [v * 0.1 for v in draw(TR.random_sd7())]
    return {"p": p, "rates": rates, "epoch": list(ep), "from": lab[0], "to": lab[1], "sd": sd, "sdr": sdr, "pnum": draw(TR.pnum_kind),
            "epoch_cls": draw(st.sampled_from(["date", "date", "date", "subclass"]))}


_vcv_opt = st.one_of(st.none(), st.none(), TR.psd3())
_num = st.sampled_from(["float", "float", "float", "float", "int", "npint", "np64"])
cases = st.fixed_dictionaries({"trans": st.one_of(st.deferred(_shipped), st.deferred(_shipped), _random_set()),
                               "epoch": _epoch(), "X": TR.point(1e7), "vcv": _vcv_opt, "num": _num})
atrf_cases = st.fixed_dictionaries({"epoch": _epoch(), "X": TR.point(1e7), "vcv": _vcv_opt, "num": _num})


def enumerate_shipped(tier, seed, shard, nshards):
    """Every dated shipped set at every special epoch (same epoch for all sets in a row, so sets that share labels meet)."""
    import random
    rnd = random.Random(seed * 104729 + 7)
    names = TR.shipped_dated_names()
    pts = [[-4052051.7643, 4212836.2017, -2545106.0245], [1e7, -1e7, 1e7], [6378137.0, 0.0, 0.0], [0.0, 0.0, -6356752.3]]
    epochs = list(SPECIAL)
    extra = 6 if tier == "quick" else 80
    for _ in range(extra):
        epochs.append(datetime.date.fromordinal(rnd.randint(EPOCH_LO, EPOCH_HI)).timetuple()[:3])
    for i, e in enumerate(epochs):
        if i % nshards != shard:
            continue
        order = list(names)
        if i % 2:
            order.reverse()
        for n in order:
            X = pts[(i + len(n)) % len(pts)] if tier == "quick" else [rnd.uniform(-1e7, 1e7) for _ in range(3)]
            yield {"trans": {"name": n}, "epoch": list(e), "X": X, "num": ["float", "float", "int", "float", "npint", "np64"][(i + len(n)) % 6]}


def _fill_point(u_az, u_z, u_r):
    z = 2.0 * u_z - 1.0
    rad = 1e7 * (0.3 + 0.7 * u_r)               # Earth-surface-like radii up to the 1e7 m of the statement
    p = math.sqrt(max(0.0, 1.0 - z * z))
    lam = 2.0 * math.pi * u_az
    return [rad * p * math.cos(lam), rad * p * math.sin(lam), rad * z]


def _epoch_of(u):
    return list(datetime.date.fromordinal(EPOCH_LO + min(int(u * (EPOCH_HI - EPOCH_LO + 1)), EPOCH_HI - EPOCH_LO)).timetuple()[:3])


def _fill_build(u):
    name, r = S.u_pick(u[3], TR.shipped_dated_names())
    return {"trans": {"name": name}, "epoch": _epoch_of(u[4]), "X": _fill_point(u[0], u[1], u[2])}


def _atrf_fill(u):
    return {"epoch": _epoch_of(u[3]), "X": _fill_point(u[0], u[1], u[2]), "vcv": None}


def _nt(case):
    tr = TR.make_trans(case["trans"]) if "trans" in case else repo.mod("geodepy.constants").atrf2014_to_gda2020
    if not isinstance(tr.ref_epoch, datetime.date):
        return False
    return _date(case["epoch"]) != tr.ref_epoch and any(v != 0 for v in TR.rates_of(tr))


def _classes(case):
    out = []
    if "trans" in case:
        out.append("set:shipped" if "name" in case["trans"] else "set:random")
        tr = TR.make_trans(case["trans"])
        e = _date(case["epoch"])
        if isinstance(tr.ref_epoch, datetime.date):
            out.append("at-ref-epoch" if e == tr.ref_epoch else ("before-ref" if e < tr.ref_epoch else "after-ref"))
    if tuple(case["epoch"][1:]) == (2, 29):
        out.append("leap-day")
    return out


SUBCHECKS = [
    SubCheck("linear_shipped_sets", check_linear, enumerate=enumerate_shipped, nontrivial=_nt, classes=_classes,
             shards_quick=2, shards_thorough=8, exhaustive="both",
             rule="all dated shipped sets x special + random epochs in one process: conform14 vs formula with advanced parameters, 2 um"),
    SubCheck("linear_fill", check_linear, enumerate=S.fill(707, 5, _fill_build, 30000, 600000), nontrivial=_nt, classes=_classes,
             shards_quick=12, shards_thorough=16,
             rule="low-discrepancy fill of dated shipped set x epoch (every day 1980..2060) x direction (uniform on the sphere) x radius: 30 000 / 600 000 cases"),
    SubCheck("atrf_fill", check_atrf, enumerate=S.fill(708, 4, _atrf_fill, 20000, 400000), nontrivial=lambda c: tuple(c["epoch"]) != (2020, 1, 1),
             classes=_classes, shards_quick=12, shards_thorough=16,
             rule="the same fill through the ATRF2014 <-> GDA2020 wrappers: 20 000 / 400 000 cases"),
    SubCheck("linear_generated", check_linear, strategy=cases, nontrivial=_nt, classes=_classes,
             quick=2500, thorough=250000, shards_quick=3, shards_thorough=12, seq_groups=[["trans"], ["epoch"], ["X"]],
             fresh=(8, 64, 3), rule="(shipped | random sets) x epochs x points, with call sequences sharing the epoch or the set"),
    SubCheck("reverse_generated", check_reverse, strategy=cases, nontrivial=_nt, classes=_classes,
             quick=2500, thorough=200000, shards_quick=3, shards_thorough=12, seq_groups=[["trans"], ["epoch"], ["X"]],
             rule="T then -T at the same epoch within the second-order bound of the advanced parameters (+2 um)"),
    SubCheck("atrf_gda2020", check_atrf, strategy=atrf_cases, nontrivial=lambda c: tuple(c["epoch"]) != (2020, 1, 1),
             classes=_classes, quick=2500, thorough=200000, shards_quick=3, shards_thorough=12,
             rule="ATRF2014 <-> GDA2020 = conform14 with +-plate-motion set; mutual inverses within the bound; exact identity at 2020-01-01"),
]
