"""C10 Point scale factor and grid convergence belong to the projection actually used."""
import math

from .. import repo, strategies as S, tmcases as T
from ..core import SubCheck, Fail, Discard, metric, target
from ..oracles import tm_exact

RULE = ("positions / grid coordinates of C01 / C02 (|lon - CM| up to 30 deg, four quadrants, axes) x UTM with each "
        "shipped ellipsoid, ISG, random projections and ellipsoids; non-trivial = off both axes and (non-GRS80 or "
        "non-UTM or |dlon| > 3 deg)")
ASSUMPTIONS = ["oracle: scale = k0 |dZ/dw| / (nu cos lat), convergence = arg(dZ/dw) of the exact-TM oracle (analytic derivative)",
               "'forward and inverse report the same two values for the same point' is evaluated at the latitude and "
               "longitude the inverse returns (DESIGN 2): the forward rounding to 0.1 mm is then not part of the comparison",
               "psf is rounded to 8 decimals by the code: a comparison of two rounded values gets the float-fuzz factor 1.0005"]

PSF_TOL = 2e-8
CONV_TOL = 1e-9


def selftest():
    tm_exact.selftest()


def _cmp(where, psf, conv, k0, g0, ctx):
    dk = abs(psf - k0)
    dg = abs(conv - g0)
    metric(where + "_psf_err", dk)
    metric(where + "_conv_err_deg", dg)
    target(dk / PSF_TOL + dg / CONV_TOL, where + "_err")
    if not dk <= PSF_TOL:
        raise Fail("%s: point scale factor differs from the exact projection's local length ratio by more than 2e-8" % where,
                   expected={"psf": k0, "tol": PSF_TOL}, observed=dict(ctx, psf=psf, diff=dk))
    if not dg <= CONV_TOL:
        raise Fail("%s: grid convergence differs from the angle grid north -> projected meridian by more than 1e-9 deg" % where,
                   expected={"conv_deg": g0, "tol": CONV_TOL}, observed=dict(ctx, conv=conv, diff=dg))


def check_forward(case):
    cv = repo.mod("geodepy.convert")
    lat, lon = case["lat"], case["lon"]
    hemi, zone, east, north, psf, conv = T.call_geo2grid(cv, case, lat, lon)
    cm = T.cm_of(case["prj"], zone)
    e0, n0, k0, g0 = T.oracle_forward(lat, lon, cm, case)
    _cmp("forward", psf, conv, k0, g0, {"zone": zone, "cm": cm})
    # sign rule in all four quadrants, zero on the axes
    if lat == 0.0 or lon == cm:
        if abs(conv) > CONV_TOL:
            raise Fail("forward: convergence is not zero on the equator / central meridian", expected=0.0, observed=conv)


def check_inverse(case):
    cv = repo.mod("geodepy.convert")
    T.grid_predomain_or_discard(case)          # the domain is decided by the exact projection, not by the library's own answer
    lat, lon, psf, conv = T.call_grid2geo(cv, case, case["zone"], case["east"], case["north"], case["hemi"])
    cm = T.cm_of(case["prj"], case["zone"])
    e0, n0, k0, g0 = T.oracle_forward(lat, lon, cm, case)
    _cmp("inverse", psf, conv, k0, g0, {"lat": lat, "lon": lon, "cm": cm})
    # forward at the very point the inverse returned reports the same two values
    f = T.call_geo2grid(cv, case, lat, lon)
    dk = abs(f[4] - psf)
    dg = abs(f[5] - conv)
    metric("fwd_vs_inv_psf", dk)
    metric("fwd_vs_inv_conv_deg", dg)
    if not (dk <= PSF_TOL * 1.0005 and dg <= CONV_TOL):
        raise Fail("forward and inverse conversion report different scale factor / convergence for the same point",
                   expected={"psf": psf, "conv": conv}, observed={"lat": lat, "lon": lon, "psf": f[4], "conv": f[5]})


def _nt_geo(case):
    if abs(case["lat"]) <= 0.01:
        return False
    if case["zone"] == 0:
        d = 1.0
    else:
        d = abs(case["lon"] - T.cm_of(case["prj"], case["zone"]))
    if d <= 0.01:
        return False
    return case["ell"] != "grs80" or case["prj"] != "utm" or d > 3.0


def _nt_grid(case):
    fe, fn, k0, zw, cm1, kind = S.projection_params(case["prj"])
    y = case["north"] if case["hemi"] == "north" else fn - case["north"]
    if abs(case["east"] - fe) <= 1000.0 or abs(y) <= 1000.0:
        return False
    return case["ell"] != "grs80" or case["prj"] != "utm" or abs(case["east"] - fe) > 3.4e5


def _cls_geo(case):
    out = T.tm_classes(case)
    if case["zone"]:
        cm = T.cm_of(case["prj"], case["zone"])
        out.append("quadrant:%s%s" % ("N" if case["lat"] > 0 else ("S" if case["lat"] < 0 else "0"),
                                     "E" if case["lon"] > cm else ("W" if case["lon"] < cm else "0")))
    return out


def _cls_grid(case):
    out = T.tm_classes(case)
    fe = S.projection_params(case["prj"])[0]
    out.append("quadrant:%s%s" % ("N" if case["hemi"] == "north" else "S",
                                 "E" if case["east"] > fe else ("W" if case["east"] < fe else "0")))
    return out


SUBCHECKS = [
    SubCheck("forward_psf_conv", check_forward, strategy=T.geo_cases(kinds=False), nontrivial=_nt_geo, classes=_cls_geo,
             quick=3000, thorough=300000, shards_quick=4, shards_thorough=16, seq_groups=[["ell"], ["prj", "zone", "lon"], ["lat"]],
             fresh=(8, 64, 3), rule="geo2grid psf within 2e-8 and convergence within 1e-9 deg of the exact projection's derivative; zero on the axes"),
    SubCheck("inverse_psf_conv", check_inverse, strategy=T.grid_cases(), nontrivial=_nt_grid, classes=_cls_grid,
             quick=3000, thorough=300000, shards_quick=4, shards_thorough=16,
             seq_groups=[["ell"], ["prj", "zone"], ["east"], ["north", "hemi"]],
             fresh=(8, 64, 3), rule="grid2geo psf / convergence vs the exact derivative at the returned point; forward at that point reports the same"),
    SubCheck("forward_axis_sweeps", check_forward, enumerate=T.geo_sweeps(40000, 640000), nontrivial=_nt_geo, classes=_cls_geo,
             shards_quick=8, shards_thorough=16,
             rule="stratified sweeps through the latitude band and the longitudes (lattice of 40 000 / 640 000 points per line, lines fixed by the seed)"),
    SubCheck("inverse_axis_sweeps", check_inverse, enumerate=T.grid_sweeps(20000, 320000), nontrivial=_nt_grid, classes=_cls_grid,
             shards_quick=8, shards_thorough=16,
             rule="stratified sweeps through northings (equator .. band limit) and eastings (usual zone / out to 3 000 km), 20 000 / 320 000 points per line"),
    SubCheck("forward_fill", check_forward, enumerate=T.geo_fill(60000, 1200000, salt=1010), nontrivial=_nt_geo, classes=_cls_geo,
             shards_quick=12, shards_thorough=16,
             rule="low-discrepancy fill of latitude x longitude / zone x offset x ellipsoid x projection: 60 000 / 1 200 000 points"),
    SubCheck("inverse_fill", check_inverse, enumerate=T.grid_fill(40000, 800000, salt=1011), nontrivial=_nt_grid, classes=_cls_grid,
             shards_quick=12, shards_thorough=16,
             rule="low-discrepancy fill of zone x hemisphere x northing x easting x ellipsoid x projection: 40 000 / 800 000 points"),
]
