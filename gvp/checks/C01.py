"""C01 Forward grid conversion is the exact Transverse Mercator of the ellipsoid."""
import numbers
from fractions import Fraction

from .. import repo, strategies as S, tmcases as T
from ..core import SubCheck, Fail, Discard, metric, target, is_seq
from ..oracles import tm_exact

RULE = ("positions (lat in [-80, 84], lon in [-180, 180)) x ellipsoid (4 shipped + random a, 1/f in [150, 400]) x "
        "projection (UTM, ISG, random Projection objects) x zone request (automatic / explicit zone with CM within "
        "30 deg, across the antimeridian too) x representation (float, Python int, numpy float64, the 5 angle classes, latitude and "
        "longitude in different ones; defaults left out / keywords); custom projections: tidy ones and arbitrary floats (k0 on both "
        "sides of 1, fractional zone widths, any first meridian, negative false origins); all zone limits +-1..3 ulp enumerated; "
        "non-trivial = |lon - CM| > 0.01 deg and |lat| > 0.01 deg")
ASSUMPTIONS = ["oracle: exact TM by analytic continuation of the meridian arc (gvp/oracles/tm_exact.py), accurate to "
               "< 1e-8 m in the domain; self-tested against frozen 40-digit values and the spherical closed form",
               "automatic zoning is exercised only where zones 1..60 (or the ten ISG zones) cover the longitude",
               "latitudes with |lat| < 1e-300 other than 0 are not generated (radians() underflows to -0.0)"]


def selftest():
    tm_exact.selftest()


def _position(case):
    lat_o, lon_o, lat, lon = T.geo_args(case)
    T.in_band_or_discard(lat, lon)
    if case["zone"] == 0 and not any(lo <= lon < hi for lo, hi in T.auto_window(case["prj"])):
        raise Discard()     # the notation round trip moved the longitude out of the automatically zoned range
    return lat_o, lon_o, lat, lon


def check_position(case):
    cv = repo.mod("geodepy.convert")
    lat_o, lon_o, lat, lon = _position(case)
    got = T.call_geo2grid(cv, case, lat_o, lon_o)
    if not is_seq(got, 6):
        raise Fail("geo2grid did not return a 6-tuple", observed=repr(got))
    hemi, zone, east, north, psf, conv = got
    fe, fn, k0, zw, cm1, kind = S.projection_params(case["prj"])

    # zone
    if case["zone"] == 0:
        if kind == "isg":
            # ISG zones are numbered <AMG zone><sub-zone 1..3>; the statement's rule is the central-meridian one
            if not (isinstance(zone, numbers.Integral) and 100 <= zone <= 609 and zone % 10 in (1, 2, 3)):
                raise Fail("automatic ISG zone is not a <zone><subzone 1..3> number",
                           observed={"zone": zone, "lon": lon})
            half = 1.0
        else:
            if not (isinstance(zone, numbers.Integral) and 1 <= zone <= 60):
                raise Fail("automatic zone not in 1..60", expected="1..60", observed={"zone": zone, "lon": lon})
            half = zw / 2.0
        cm = T.cm_of(case["prj"], zone)
        # decided in exact rational arithmetic on the floats involved where the zone limits are representable numbers (UTM and
        # projections with whole-degree widths on a half-degree lattice): one unit in the last place beyond the limit is beyond it.
        # For arbitrary widths / first meridians the limits themselves carry rounding: 1e-12 deg of slack.
        representable = kind == "isg" or (float(zw).is_integer() and float(cm1 * 2).is_integer())
        if representable and kind != "isg":
            off = abs(Fraction(lon) - (Fraction(cm1) + (int(zone) - 1) * Fraction(zw)))
            bad = off > Fraction(zw) / 2
        else:
            bad = not abs(lon - cm) <= half + (1e-9 if kind == "isg" else 1e-12)
        if bad:
            raise Fail("automatic zone: central meridian is not within half a zone width of the longitude",
                       expected={"|lon-cm|<=": half}, observed={"zone": zone, "cm": cm, "lon": lon})
    else:
        if zone != case["zone"]:
            raise Fail("explicit zone not returned unchanged", expected=case["zone"], observed=zone)
        cm = T.cm_of(case["prj"], zone)

    # hemisphere label
    want_hemi = "South" if lat < 0 else "North"
    if hemi != want_hemi:
        raise Fail("hemisphere label does not follow the sign of the latitude", expected=want_hemi,
                   observed={"hemisphere": hemi, "lat": lat})

    # position
    e0, n0, k0_, g0 = T.oracle_forward(lat, lon, cm, case)
    d = ((east - e0) ** 2 + (north - n0) ** 2) ** 0.5
    metric("position_err_m", d)
    target(d, "position_err")
    if not d <= 2e-4:
        raise Fail("easting/northing differ from the exact Transverse Mercator by more than 0.2 mm",
                   expected={"east": e0, "north": n0, "tol_m": 2e-4},
                   observed={"east": east, "north": north, "dist_m": d, "zone": zone, "hemisphere": hemi})

    # angle objects give the same result as their decimal values
    if case["kind"] != "float":
        plain = T.call_geo2grid(cv, case, lat, lon)
        # (hemisphere and zone identical; coordinates within one unit of their 0.1 mm resolution: a rounding-level difference
        # between the two routes may fall on either side of a rounding limit.  Scale factor and convergence are C10's subject.)
        if (plain[0], plain[1]) != (got[0], got[1]) or abs(plain[2] - got[2]) > 1.0001e-4 or abs(plain[3] - got[3]) > 1.0001e-4:
            raise Fail("geo2grid with angle objects differs from the call with their decimal-degree values",
                       expected=list(plain), observed=list(got))


def _nt(case):
    if abs(case["lat"]) <= 0.01:
        return False
    if case["zone"] == 0:
        return True
    return abs(case["lon"] - T.cm_of(case["prj"], case["zone"])) > 0.01


def enumerate_zone_boundaries(tier, seed, shard, nshards):
    """Every zone boundary of UTM, ISG and three custom projections, at the boundary and +-1..3 adjacent floats / +-1e-12 /
    +-1e-9 deg, automatic zoning, a few latitudes (complete: the set of boundaries is finite)."""
    import math
    projs = ["utm", "isg", {"fe": 0.0, "fn": 0.0, "k0": 1.0, "zw": 2, "cm1": -179.0}, {"fe": 500000.0, "fn": 10000000.0, "k0": 0.9996, "zw": 3, "cm1": 1.5},
             {"fe": 200000.0, "fn": 5000000.0, "k0": 0.999, "zw": 8, "cm1": -176.0}]
    i = 0
    for prj in projs:
        for lo, hi in T.auto_window(prj):
            zw = S.projection_params(prj)[3]
            nb = int(round((hi - lo) / zw))
            for k in range(nb + 1):
                b = lo + k * zw
                lons = {b}
                x = b
                for _ in range(3):
                    x = math.nextafter(x, math.inf)
                    lons.add(x)
                x = b
                for _ in range(3):
                    x = math.nextafter(x, -math.inf)
                    lons.add(x)
                lons |= {b + 1e-12, b - 1e-12, b + 1e-9, b - 1e-9, b + zw / 2.0}
                for lon in sorted(lons):
                    if not (lo <= lon < hi):
                        continue
                    lats = [float(v) for v in range(-80, 85, 8)] + [84.0]
                    if tier == "thorough":
                        lats = [float(v) for v in range(-80, 85, 2)] + [-1e-9, 0.5]
                    elif prj != "utm":
                        lats = [-72.0, -37.0, 0.0, 12.5, 60.0, 84.0]
                    for lat in lats:
                        if i % nshards == shard:
                            yield {"lat": lat, "lon": lon, "zone": 0, "ell": ("ans" if prj == "isg" else "grs80"), "prj": prj, "kind": "float"}
                        i += 1


SUBCHECKS = [
    SubCheck("forward_exact_tm", check_position, strategy=T.geo_cases(), nontrivial=_nt, classes=T.tm_classes,
             quick=3000, thorough=360000, shards_quick=4, shards_thorough=16,
             seq_groups=[["ell"], ["prj", "zone", "lon"], ["lat"], ["kind"]],
             fresh=(8, 64, 3), rule="geo2grid vs exact TM (0.2 mm), automatic zone/hemisphere rules, angle objects vs decimal values"),
    SubCheck("zone_boundaries", check_position, enumerate=enumerate_zone_boundaries, nontrivial=_nt, classes=T.tm_classes,
             shards_quick=4, shards_thorough=8, exhaustive="both",
             rule="automatic zoning at every zone boundary (UTM, ISG, three custom projections) and within a few ulps / 1e-12 / 1e-9 deg of it"),
    SubCheck("axis_sweeps", check_position, enumerate=T.geo_sweeps(40000, 640000), nontrivial=_nt, classes=T.tm_classes,
             shards_quick=8, shards_thorough=16,
             rule="stratified sweeps: two meridians walked through the latitude band and two parallels through the longitudes (automatic "
                  "zones / offsets of -30..30 deg from an explicit zone's meridian) on a lattice of 40 000 (quick; 455 m of latitude) or "
                  "640 000 points per line, lines fixed by the seed: any latitude / longitude slab wider than the spacing is crossed"),
    SubCheck("quasi_random_fill", check_position, enumerate=T.geo_fill(100000, 2000000), nontrivial=_nt, classes=T.tm_classes,
             shards_quick=12, shards_thorough=16,
             rule="low-discrepancy (Halton, seeded shift) fill of latitude x longitude / zone x offset x ellipsoid x projection: 100 000 / 2 000 000 points"),
]
