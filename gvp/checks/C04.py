"""C04 Direct geodesic solution follows the exact ellipsoidal geodesic."""
import math

from hypothesis import strategies as st

from .. import repo, strategies as S
from ..core import SubCheck, Fail, Discard, metric, target, is_seq
from ..oracles import geodesic_exact as G

RULE = ("start point anywhere (incl. equator and poles), azimuth in [0, 360] incl. cardinals, distance 0..20 000 km "
        "(uniform and log-uniform from 1 mm), 4 shipped ellipsoids + random (1/f in [280, 320]), float and the five angle "
        "classes (each argument possibly in its own), Python ints and numpy float64 incl. the distance; non-trivial = distance > 1 m")
ASSUMPTIONS = ["oracle: direct geodesic by Gauss-Legendre quadrature of the exact integrals (gvp/oracles/geodesic_exact.py); "
               "self-tested on Karney's published example, equatorial, meridional and pole-crossing closed forms",
               "end-point separation is measured in the local metric sqrt((M dlat)^2 + (N cos(lat) dlon)^2), dlon modulo 360 "
               "(polar tangent-plane chord within 1 deg of a pole)",
               "azimuth at a pole is taken relative to the meridian lon1 (the limit along that meridian), which is also "
               "what the formulae under test compute"]

lat1_s = st.one_of(S.floats(-90, 90), S.floats(-90, 90), S.floats(-90, 90), st.sampled_from([0.0, 90.0, -90.0, 45.0, -45.0, 89.9, -89.9]),
                   S.floats(-1e-6, 1e-6), S.near([0.0, 90.0, -90.0], -90.0, 90.0, 1e-12, 1.0))
lon1_s = st.one_of(S.floats(-180, 180), S.floats(-180, 180), st.sampled_from([0.0, 180.0, -180.0, 90.0, -90.0, 179.999999, -179.999999]))
az_s = st.one_of(S.floats(0, 360), S.floats(0, 360), S.near([0.0, 90.0, 180.0, 270.0, 360.0], 0.0, 360.0, 1e-12, 1.0), st.sampled_from([0.0, 90.0, 180.0, 270.0, 360.0, 1e-9, 89.999999999, 90.000000001,
                                                                     180.000000001, 359.999999999, 45.0]))
dist_s = st.one_of(S.floats(0.0, 2e7), S.floats(0.0, 2e7), S.log_uniform(1e-3, 2e7), S.log_uniform(1.0, 2e7), S.log_uniform(1e3, 1e6),
                   st.sampled_from([0.0, 1e-3, 1.0, 1e7, 2e7, 10001965.729]))
ell_s = S.ellipsoid_spec(280.0, 320.0)

cases = st.fixed_dictionaries({"lat1": S.whole_sometimes(lat1_s), "lon1": S.whole_sometimes(lon1_s), "az": S.whole_sometimes(az_s),
                               "s": S.whole_sometimes(dist_s), "ell": ell_s, "kind": S.angle_kind,
                               "kinds": st.one_of(st.none(), st.none(), st.none(), st.lists(S.angle_kind, min_size=3, max_size=3)),
                               "num": S.num_kind, "defaults": st.booleans()})


def selftest():
    G.selftest()


def _angdiff(a, b):
    return abs((a - b + 180.0) % 360.0 - 180.0)


def check_direct(case):
    gd = repo.mod("geodepy.geodesy")
    ell = S.make_ellipsoid(case["ell"])
    a, invf = S.ellipsoid_params(case["ell"])
    k = case["kind"]
    ks = case.get("kinds") or [k, k, k]       # each angle argument in its own representation (usually the same one)
    lat_o, lon_o, az_o = S.angle_obj(ks[0], case["lat1"]), S.angle_obj(ks[1], case["lon1"]), S.angle_obj(ks[2], case["az"])
    lat1, lon1, az = S.obj_dec(lat_o), S.obj_dec(lon_o), S.obj_dec(az_o)
    if not (-90.0 <= lat1 <= 90.0):
        raise Discard()
    nk = case.get("num", "float")
    lat_o, lon_o, az_o = (S.as_kind(v, nk) if type(v) is float else v for v in (lat_o, lon_o, az_o))
    s_arg = S.as_kind(case["s"], nk)          # Python int / numpy float64 where they hold the value
    if case["ell"] == "grs80" and case.get("defaults"):
        got = gd.vincdir(lat_o, lon_o, az_o, s_arg)                      # default ellipsoid left out
    elif case.get("defaults"):
        got = gd.vincdir(lat1=lat_o, lon1=lon_o, azimuth1to2=az_o, ell_dist=s_arg, ellipsoid=ell)
    else:
        got = gd.vincdir(lat_o, lon_o, az_o, s_arg, ell)
    if not is_seq(got, 3):
        raise Fail("vincdir did not return (lat2, lon2, azimuth2to1)", observed=repr(got))
    lat2, lon2, az21 = got
    e_lat, e_lon, e_az = G.direct(lat1, lon1, az, case["s"], a, invf)
    d = G.metric_distance(e_lat, e_lon, lat2, lon2, a, invf)
    metric("endpoint_err_m", d)
    target(d, "endpoint_err")
    if not d <= 1e-3:
        raise Fail("end point is more than 1 mm from the exact geodesic's end point",
                   expected={"lat2": e_lat, "lon2": e_lon, "tol_m": 1e-3}, observed={"lat2": lat2, "lon2": lon2, "dist_m": d})
    if abs(e_lat) < 89.0:
        da = _angdiff(az21, e_az + 180.0)
        metric("rev_azimuth_err_deg", da)
        if not da <= 1e-8:
            raise Fail("reverse azimuth differs from the geodesic's azimuth at the end point + 180 by more than 1e-8 deg",
                       expected={"azimuth2to1": (e_az + 180.0) % 360.0, "tol_deg": 1e-8},
                       observed={"azimuth2to1": az21, "diff_deg": da})
    if any(v != "float" for v in ks) or nk != "float":
        plain = gd.vincdir(lat1, lon1, az, case["s"], ell)
        # "the same result": the same end point (a tenth of the stated millimetre) and the same direction (azimuths modulo 360,
        # a tenth of the stated 1e-8 deg where the statement speaks of the azimuth at all)
        dp = G.metric_distance(plain[0], plain[1], got[0], got[1], a, invf)
        if not dp <= 1e-4 or (abs(e_lat) < 89.0 and not _angdiff(plain[2], got[2]) <= 1e-9):
            raise Fail("vincdir with angle objects differs from the call with their decimal-degree values",
                       expected=list(plain), observed=list(got))


def _classes(case):
    out = ["ell:" + (case["ell"] if isinstance(case["ell"], str) else "custom"), "kind:" + case["kind"]]
    if case.get("kinds") and len(set(case["kinds"])) > 1:
        out.append("mixed-representations")
    if case.get("num", "float") != "float":
        out.append("num:" + case["num"] + ("(whole distance)" if float(case["s"]).is_integer() else ""))
    azm = case["az"] % 360.0
    if case["lat1"] == 0.0 and azm in (90.0, 270.0):
        out.append("equatorial")
    if azm in (0.0, 180.0):
        out.append("meridional")
        colat = 90.0 - case["lat1"] if azm == 0.0 else 90.0 + case["lat1"]
        if case["s"] > colat * 111200.0:
            out.append("pole-crossing")
    if abs(case["lat1"]) == 90.0:
        out.append("from-pole")
    s = case["s"]
    out.append("s<1m" if s < 1 else ("s<1km" if s < 1e3 else ("s<1000km" if s < 1e6 else "s>=1000km")))
    return out


def enumerate_sweeps(tier, seed, shard, nshards):
    """Stratified sweeps (see gvp/tmcases.py): the azimuth circle twice (40 000 / 400 000 directions), the start latitude and the
    distance once each (8 000 / 100 000 points), the remaining arguments fixed per line by the seed."""
    import random
    rnd = random.Random(1000003 * int(seed) + 404)
    big, small = (400000, 100000) if tier == "thorough" else (40000, 8000)
    base = {"kind": "float", "kinds": None, "num": "float", "defaults": False}
    i = 0
    for line in range(4):
        ell = "grs80" if line == 0 else T_sweep_ell(rnd)
        lat1, lon1 = rnd.uniform(-85.0, 85.0), rnd.uniform(-180.0, 180.0)
        az, s = rnd.uniform(0.0, 360.0), rnd.uniform(1e5, 2e7)
        ph = rnd.random()
        n = big if line < 2 else small
        for k in range(n):
            if i % nshards == shard:
                f = (k + ph) / n
                if line < 2:
                    yield dict(base, lat1=lat1, lon1=lon1, az=360.0 * f, s=s, ell=ell)
                elif line == 2:
                    yield dict(base, lat1=-90.0 + 180.0 * f, lon1=lon1, az=az, s=s, ell=ell)
                else:
                    yield dict(base, lat1=lat1, lon1=lon1, az=az, s=2e7 * f, ell=ell)
            i += 1


def _fill_build(u):
    s = 2e7 * u[3] if u[5] < 0.5 else 10.0 ** (-3.0 + 10.301 * u[3])          # uniform / log-uniform distances, as the statement says
    return {"kind": "float", "kinds": None, "num": "float", "defaults": False, "lat1": -90.0 + 180.0 * u[0], "lon1": -180.0 + 360.0 * u[1],
            "az": 360.0 * u[2], "s": s, "ell": S.u_ellipsoid((u[5] * 2) % 1.0, u[4], 280.0, 320.0)}


def T_sweep_ell(rnd):
    if rnd.random() < 0.5:
        return S.SHIPPED_ELLIPSOIDS[rnd.randrange(4)]
    return {"a": rnd.uniform(6.3e6, 6.4e6), "invf": rnd.uniform(280.0, 320.0)}


SUBCHECKS = [
    SubCheck("direct_vs_exact_geodesic", check_direct, strategy=cases, nontrivial=lambda c: c["s"] > 1.0, classes=_classes,
             quick=3000, thorough=300000, shards_quick=4, shards_thorough=16,
             seq_groups=[["ell"], ["lat1", "lon1"], ["az"], ["s"], ["kind"]],
             fresh=(8, 64, 3), rule="vincdir end point within 1 mm of the quadrature geodesic, reverse azimuth within 1e-8 deg (end point > 1 deg "
                  "from a pole), angle classes == decimal values"),
    SubCheck("axis_sweeps", check_direct, enumerate=enumerate_sweeps, nontrivial=lambda c: c["s"] > 1.0, classes=_classes,
             shards_quick=12, shards_thorough=16,
             rule="stratified sweeps: the azimuth circle (2 lines of 40 000 / 400 000 directions: 0.009 / 0.0009 deg apart), start latitude and "
                  "distance (8 000 / 100 000 points), other arguments fixed per line by the seed"),
    SubCheck("quasi_random_fill", check_direct, enumerate=S.fill(414, 6, _fill_build, 40000, 800000), nontrivial=lambda c: c["s"] > 1.0,
             classes=_classes, shards_quick=12, shards_thorough=16,
             rule="low-discrepancy fill of start latitude x longitude x azimuth x distance (uniform / log-uniform) x ellipsoid: 40 000 / 800 000 points"),
]
