"""C08 All angle notations convert to one another without changing the angle."""
import math
from fractions import Fraction

import numpy as np
from hypothesis import strategies as st

from .. import repo, strategies as S
from ..core import SubCheck, Fail, Discard, HarnessError, metric
from ..oracles import angle_ref as AR

RULE = ("(i) the lattice of whole arc-seconds 0..359 59 59, both signs, as source value in all nine notations, through every "
        "direct function and object method (complete in the thorough tier, every 40th second + all minute/degree boundaries in "
        "quick); (ii) fractional seconds to 1e-9\", values k x 1e-9\" either side of second / minute / degree boundaries, random reals "
        "in [-720, 720]; (iii) random chains of up to 3 conversions from every notation; (iv) invalid HP values (scalar, object and vectorised conversion); numbers also as numpy float64 / ints, DMS / DDM objects "
        "through every documented way of giving the sign (flag, signed leading field, -0.0 degree, string); every case is "
        "non-trivial; distinct = distinct (value, notation, chain)")
ASSUMPTIONS = ["HP floats are read by their decimal rendering to 13 places, 12 from 512 degrees (a double cannot hold a 13th place "
               "there: ulp 1.1e-13); HP literals are generated with 13 decimals below 512 degrees and 12 above",
               "denotations are exact rationals (fractions.Fraction, pi to 50 digits); the lattice sweep pre-screens with floats "
               "(error < 1e-9\") and decides every case within 1e-9\" of the tolerance exactly",
               "a chain must stay within 1e-8\" of its *source* at every step (the statement's reading), magnitudes stay <= 720 deg"]

TOLF = 1e-8
_E = {}


def _edges():
    if not _E:
        by = {}
        for frm, to, label, fn in AR.edges():
            by.setdefault(frm, []).append((to, label, fn))
        _E.update(by)
    return _E


def selftest():
    AR.selftest()


# ------------------------------------------------------------------------------------------------ float pre-screen

_K_RAD = 648000.0 / math.pi


def _fden(notation, v):
    """Float denotation in arc-seconds, or None if an HP value has a field >= 60."""
    if notation == "dec":
        return v * 3600.0
    if notation == "gon":
        return v * 3240.0
    if notation == "rad":
        return v * _K_RAD
    if notation == "deca":
        return v.dec_angle * 3600.0
    if notation == "gona":
        return v.gon_angle * 3240.0
    if notation == "dms":
        x = v.degree * 3600 + v.minute * 60 + v.second
        return x if v.positive else -x
    if notation == "ddm":
        x = v.degree * 3600 + v.minute * 60.0
        return x if v.positive else -x
    h = v if notation == "hp" else v.hp_angle
    ah = abs(h)
    txt = ("%.13f" % ah) if ah < 512 else ("%.12f0" % ah)
    ip, fp = txt.split(".")
    m = int(fp[:2])
    sn = int(fp[2:])
    if m >= 60 or sn >= 60000000000:
        return None
    x = int(ip) * 3600 + m * 60 + sn * 1e-9
    return -x if (h < 0) else x


def _verify(src_not, src_val, d_src_f, to, label, out):
    """Decide one conversion result. Fast float screen first; exact rational decision when close to the tolerance."""
    if not AR.type_ok(to, out):
        raise Fail("%s: result is not a %s value" % (label, to), observed=repr(out), bucket=label + " type")
    df = _fden(to, out)
    if df is None:
        raise Fail("%s: produced an HP value whose minutes or seconds field is 60 or more" % label,
                   expected="valid HP (fields < 60)", observed={"source": repr(src_val), "result": repr(out)},
                   bucket=label + " invalid HP out")
    err = abs(df - d_src_f)
    if err <= TOLF - 1e-9:
        return err
    try:
        exact = abs(AR.denote(to, out) - AR.denote(src_not, src_val))
    except AR.InvalidHP as e:
        raise Fail("%s: produced an invalid HP value" % label, observed={"source": repr(src_val), "result": repr(out), "why": str(e)},
                   bucket=label + " invalid HP out")
    if exact > AR.TOL:
        raise Fail("%s: result does not denote the source angle within 1e-8 arc-seconds" % label,
                   expected={"source": repr(src_val), "notation": src_not, "arcsec": float(AR.denote(src_not, src_val))},
                   observed={"result": repr(out), "arcsec": float(AR.denote(to, out)), "diff_arcsec": float(exact)},
                   bucket=label + " value")
    return float(exact)


def _apply(label, fn, v, src_repr):
    try:
        return fn(v)
    except Exception as e:      # noqa: a valid value was rejected (or the conversion crashed)
        raise Fail("%s: raised %s on a valid value: %s" % (label, type(e).__name__, e), expected="a converted value",
                   observed={"source": src_repr, "error": "%s: %s" % (type(e).__name__, e)}, bucket=label + " raises")


# ------------------------------------------------------------------------------------------------ (i) lattice

def _dms_obj(a, neg, d, m, sec, form):
    """DMSAngle through each documented way of giving the sign: the positive flag, the sign on the leading non-zero field
    (a negative-zero degree when every field is zero or only the degree is), or the formatted string."""
    if form == "flag":
        return a.DMSAngle(d, m, sec, positive=not neg)
    if form == "kw":
        return a.DMSAngle(degree=d, minute=m, second=sec, positive=not neg)
    if form == "string":
        return a.DMSAngle("%s%d %d %s" % ("-" if neg else "", d, m, repr(float(sec))))
    if not neg:
        return a.DMSAngle(d, m, sec)
    if form == "negzero" or (d == 0 and m == 0 and sec == 0):
        return a.DMSAngle(-float(d), m, sec)                      # -0.0 carries the sign when the degree is zero
    if d:
        return a.DMSAngle(-d, m, sec)
    return a.DMSAngle(0, -m, sec) if m else a.DMSAngle(0, 0, -sec)


def _ddm_obj(a, neg, d, minute, form):
    if form == "flag":
        return a.DDMAngle(d, minute, positive=not neg)
    if form == "kw":
        return a.DDMAngle(degree=d, minute=minute, positive=not neg)
    if form == "string":
        return a.DDMAngle("%s%d %s" % ("-" if neg else "", d, repr(float(minute))))
    if not neg:
        return a.DDMAngle(d, minute)
    if form == "negzero" or (d == 0 and minute == 0):
        return a.DDMAngle(-float(d), minute)
    return a.DDMAngle(-d, minute) if d else a.DDMAngle(0, -minute)


FORMS = ["flag", "signed", "negzero", "string"]


def _sources(neg, d, m, s):
    """The lattice angle held in each of the nine notations (numbers by literal / correctly rounded division, objects by
    their public constructors)."""
    a = repo.mod("geodepy.angles")
    S_ = d * 3600 + m * 60 + s
    sg = -1.0 if neg else 1.0
    hp = sg * float("%d.%02d%02d" % (d, m, s))
    dec = sg * (S_ / 3600.0)
    gon = sg * (S_ / 3240.0)
    rad = sg * (S_ / _K_RAD)
    pos = not neg
    return [("hp", hp), ("dec", dec), ("gon", gon), ("rad", rad),
            ("hpa", a.HPAngle(hp)), ("deca", a.DECAngle(dec)), ("gona", a.GONAngle(gon)),
            ("dms", _dms_obj(a, neg, d, m, float(s), FORMS[(d + m + s) % 4])),
            ("ddm", _ddm_obj(a, neg, d, m + s / 60.0, FORMS[(d + m + s + 1) % 4]))]


def check_lattice(case):
    neg, d, m, s = case["neg"], case["d"], case["m"], case["s"]
    E = _edges()
    try:
        srcs = _sources(neg, d, m, s)
    except Exception as e:   # noqa: constructing HPAngle from a valid literal failed
        raise Fail("HPAngle(): rejected a valid HP literal: %s" % e, expected="accepted",
                   observed={"hp": "%s%d.%02d%02d" % ("-" if neg else "", d, m, s)}, bucket="HPAngle() raises")
    worst = 0.0
    for notation, v in srcs:
        dsf = _fden(notation, v)
        if dsf is None:
            raise HarnessError("lattice source %r is not valid HP under the oracle's own rule" % (v,))
        r = repr(v)
        for to, label, fn in E[notation]:
            out = _apply(label, fn, v, r)
            e = _verify(notation, v, dsf, to, label, out)
            if e > worst:
                worst = e
    metric("lattice_worst_arcsec", worst)


def enumerate_lattice(tier, seed, shard, nshards):
    step = 1 if tier == "thorough" else 40
    off = seed % step
    for neg in (False, True):
        for d in range(shard, 360, nshards):
            for t in range(3600):
                m, s = divmod(t, 60)
                if step > 1:
                    # quick tier: every 40th second (offset rotated by the seed), the degree boundaries of every degree
                    # and all minute boundaries of every 12th degree
                    if not ((t + d) % step == off or t in (0, 1, 3598, 3599) or (s in (0, 59) and (d + seed) % 12 == 0)):
                        continue
                yield {"neg": neg, "d": d, "m": m, "s": s}


def enumerate_minutes_upper(tier, seed, shard, nshards):
    """Whole minutes (and the seconds next to them) for 360..719 deg, where a double holds fewer decimals of an HP value."""
    for neg in (False, True):
        for d in range(360 + shard, 720, nshards):
            for m in range(60):
                for s in ((0, 59) if tier == "quick" else (0, 1, 30, 59)):
                    yield {"neg": neg, "d": d, "m": m, "s": s}


def check_lattice_vectorised(case):
    """hp2dec_v / dec2hp_v on one whole degree of the lattice at a time."""
    a = repo.mod("geodepy.angles")
    d, neg = case["d"], case["neg"]
    sg = -1.0 if neg else 1.0
    ts = sorted(set(range(0, 3600, case.get("step", 1))) | set(range(0, 3600, 60)) | set(range(59, 3600, 60)))
    hp = np.array([sg * float("%d.%02d%02d" % (d, t // 60, t % 60)) for t in ts])
    sec = np.array([sg * (d * 3600 + t) for t in ts], dtype=float)
    dec = sec / 3600.0
    if d == 0 and neg:
        hp, sec, dec = hp[1:], sec[1:], dec[1:]     # these helpers take their sign from `value <= 0`: skip -0.0
    out = _apply("hp2dec_v", a.hp2dec_v, hp.copy(), "lattice degree %d" % d)
    err = np.abs(np.asarray(out, dtype=float) * 3600.0 - sec)
    i = int(err.argmax())
    if not err[i] <= TOLF:
        raise Fail("hp2dec_v: result does not denote the source angle within 1e-8 arc-seconds",
                   expected={"hp": float(hp[i]), "arcsec": float(sec[i])}, observed={"dec": float(out[i]), "diff_arcsec": float(err[i])},
                   bucket="hp2dec_v value")
    out2 = _apply("dec2hp_v", a.dec2hp_v, dec.copy(), "lattice degree %d" % d)
    # a result handed to the caller stays the caller's: converting another batch of the same shape (and the caller's own input
    # array) must not change it
    keep1, keep2 = np.array(out, dtype=float, copy=True), np.array(out2, dtype=float, copy=True)
    hp_in, dec_in = hp.copy(), dec.copy()
    _apply("hp2dec_v", a.hp2dec_v, hp_in[::-1].copy(), "lattice degree %d (reversed batch)" % d)
    _apply("dec2hp_v", a.dec2hp_v, dec_in[::-1].copy(), "lattice degree %d (reversed batch)" % d)
    if not (np.array_equal(np.asarray(out, dtype=float), keep1) and np.array_equal(np.asarray(out2, dtype=float), keep2)):
        raise Fail("hp2dec_v / dec2hp_v: an array returned earlier was changed by a later call", expected="results owned by the caller",
                   observed={"degree": d}, bucket="vectorised result aliased")
    # the same values as a table: N x 2 (latitude, longitude) rows of mixed sign, and its transpose, give the element-wise results
    n2 = (len(hp) // 2) * 2
    if n2 >= 4:
        sgn = np.where(np.arange(n2) % 2 == 0, 1.0, -1.0)
        for name, fn, src in (("hp2dec_v", a.hp2dec_v, np.abs(hp[:n2]) * sgn), ("dec2hp_v", a.dec2hp_v, np.abs(dec[:n2]) * sgn)):
            flat = np.asarray(fn(src.copy()), dtype=float)
            for lay, arr in (("N x 2", src.reshape(-1, 2).copy()), ("2 x N", src.reshape(-1, 2).T.copy())):
                tab = np.asarray(fn(arr), dtype=float)
                ref = flat.reshape(-1, 2) if lay == "N x 2" else flat.reshape(-1, 2).T
                if tab.shape != ref.shape or not np.array_equal(tab, ref):
                    bad = np.argwhere(tab != ref)[:1].tolist() if tab.shape == ref.shape else "shape"
                    raise Fail("%s on a %s table differs from the element-wise result" % (name, lay), expected="same values as the 1-D call",
                               observed={"degree": d, "first_difference_at": bad}, bucket=name + " 2-D")
    h0, d0 = hp.copy(), dec.copy()
    a.hp2dec_v(h0)
    a.dec2hp_v(d0)
    if not (np.array_equal(h0, hp) and np.array_equal(d0, dec)):
        raise Fail("hp2dec_v / dec2hp_v modified the caller's input array", observed={"degree": d}, bucket="vectorised input modified")
    for j, h in enumerate(np.asarray(out2, dtype=float)):
        df = _fden("hp", float(h))
        if df is None:
            raise Fail("dec2hp_v: produced an HP value whose minutes or seconds field is 60 or more",
                       expected="valid HP", observed={"dec": float(dec[j]), "hp": float(h)}, bucket="dec2hp_v invalid HP out")
        if not abs(df - dec[j] * 3600.0) <= TOLF:
            raise Fail("dec2hp_v: result does not denote the source angle within 1e-8 arc-seconds",
                       expected={"dec": float(dec[j])}, observed={"hp": float(h), "diff_arcsec": abs(df - dec[j] * 3600.0)},
                       bucket="dec2hp_v value")


def enumerate_vectorised(tier, seed, shard, nshards):
    for neg in (False, True):
        for d in range(shard, 720, nshards):
            yield {"neg": neg, "d": d, "step": 1 if tier == "thorough" else 7}


# ------------------------------------------------------------------------------------------------ (ii)/(iii) generated

def _build(notation, neg, d, m, s_nano, form="flag"):
    """Source value in `notation` for the angle +-(d deg m min s_nano x 1e-9 sec), using literals / public constructors."""
    a = repo.mod("geodepy.angles")
    places = 13 if d < 512 else 12
    if places == 12:
        s_nano = (s_nano // 10) * 10
    secs = Fraction(d * 3600 + m * 60) + Fraction(s_nano, 10 ** 9)
    sg = -1 if neg else 1
    if notation == "hp":
        return AR.hp_literal(neg, d, m, s_nano, places)
    if notation == "hpa":
        if form == "kw":
            return a.HPAngle(hp_angle=AR.hp_literal(neg, d, m, s_nano, places))
        return a.HPAngle(AR.hp_literal(neg, d, m, s_nano, places))
    dec = float(sg * secs / 3600)
    if notation == "dec":
        return dec
    if notation == "deca":
        return a.DECAngle(dec_angle=dec) if form == "kw" else a.DECAngle(dec)
    gon = float(sg * secs / 3240)
    if notation == "gon":
        return gon
    if notation == "gona":
        return a.GONAngle(gon_angle=gon) if form == "kw" else a.GONAngle(gon)
    if notation == "rad":
        return float(sg * secs * AR.PI / 648000)
    if notation == "dms":
        return _dms_obj(a, neg, d, m, float(Fraction(s_nano, 10 ** 9)), form)
    if notation == "ddm":
        return _ddm_obj(a, neg, d, float(m + Fraction(s_nano, 60 * 10 ** 9)), form)
    raise HarnessError(notation)


def check_chain(case):
    E = _edges()
    notation = case["src"]
    try:
        v = _build(notation, case["neg"], case["d"], case["m"], case["s_nano"], case.get("ctor", "flag"))
    except HarnessError:
        raise
    except Exception as e:   # noqa
        raise Fail("constructing a %s value from a valid angle raised %s: %s" % (notation, type(e).__name__, e),
                   expected="accepted", observed=case, bucket="construct %s raises" % notation)
    if notation in ("dec", "gon", "rad", "hp"):
        v = S.as_kind(v, case.get("num", "float"))      # numbers also arrive as numpy float64 scalars / whole ints
    src_val, src_not = v, notation
    dsf = _fden(notation, float(v) if notation in ("dec", "gon", "rad", "hp") else v)
    if dsf is None:
        raise HarnessError("generated source %r (%s) is not valid under the oracle's own rule" % (v, notation))
    worst = 0.0
    labels = []
    for k in case["chain"]:
        outs = E[notation]
        to, label, fn = outs[k % len(outs)]
        labels.append(label)
        out = _apply(label, fn, v, "%r via %s" % (src_val, " > ".join(labels)))
        lab = label if len(labels) == 1 else "chain step " + label
        e = _verify(src_not, src_val, dsf, to, lab, out)
        worst = max(worst, e)
        notation, v = to, out
    metric("chain_worst_arcsec", worst)
    # vectorised helpers on number sources
    if src_not in ("hp", "dec") and dsf != 0.0:
        a = repo.mod("geodepy.angles")
        if src_not == "hp":
            o = _apply("hp2dec_v", a.hp2dec_v, np.array([src_val, src_val]), repr(src_val))
            _verify("hp", src_val, dsf, "dec", "hp2dec_v", float(o[0]))
        else:
            o = _apply("dec2hp_v", a.dec2hp_v, np.array([src_val, src_val]), repr(src_val))
            _verify("dec", src_val, dsf, "hp", "dec2hp_v", float(o[1]))


@st.composite
def angle_fields(draw):
    """(neg, d, m, s_nano): lattice values, boundary neighbours at k x 1e-9 arc-second, fractional seconds, random."""
    sel = draw(st.integers(0, 5))
    neg = draw(st.booleans())
    d = draw(st.one_of(st.integers(0, 719), st.integers(0, 359), st.sampled_from([0, 1, 29, 59, 89, 179, 255, 256, 359, 360, 511, 512, 719])))
    m = draw(st.one_of(st.integers(0, 59), st.sampled_from([0, 59, 1, 2])))
    if sel == 0:
        s_nano = draw(st.integers(0, 59)) * 10 ** 9
    elif sel == 1:      # just below / above a whole second, minute or degree
        k = draw(st.integers(1, 5))
        base = draw(st.sampled_from([0, 59, 1, 30]))
        s_nano = base * 10 ** 9 + (10 ** 9 - k if draw(st.booleans()) else k)
        if draw(st.booleans()):
            m = draw(st.sampled_from([0, 59]))
    elif sel == 2:
        s_nano = draw(st.integers(0, 60 * 10 ** 9 - 1))
    elif sel == 3:
        s_nano = draw(st.integers(0, 59999)) * 10 ** 6      # milli-arc-second values
    else:
        s_nano = draw(st.sampled_from([0, 1, 5 * 10 ** 8, 59999999999, 59999999990, 10 ** 9 - 1, 10 ** 9]))
    if d == 720:
        m, s_nano = 0, 0
    return {"neg": neg, "d": d, "m": m, "s_nano": s_nano, "ctor": draw(st.sampled_from(FORMS + ["kw"]))}


chain_cases = st.builds(lambda f, src, chain, num: dict(f, src=src, chain=chain, num=num), angle_fields(), st.sampled_from(AR.NOTATIONS),
                        st.lists(st.integers(0, 7), min_size=1, max_size=3), S.num_kind)


def check_real(case):
    """Random reals in [-720, 720] held as dec / gon / rad numbers and objects (not on any lattice)."""
    a = repo.mod("geodepy.angles")
    x = case["x"]
    notation = case["src"]
    v = {"dec": lambda: x, "gon": lambda: x * 10.0 / 9.0, "rad": lambda: math.radians(x), "deca": lambda: a.DECAngle(x),
         "gona": lambda: a.GONAngle(x * 10.0 / 9.0)}[notation]()
    if notation in ("dec", "gon", "rad"):
        v = S.as_kind(v, case.get("num", "float"))
    E = _edges()
    src_val, src_not = v, notation
    dsf = _fden(notation, float(v) if notation in ("dec", "gon", "rad") else v)
    labels = []
    for k in case["chain"]:
        outs = E[notation]
        to, label, fn = outs[k % len(outs)]
        labels.append(label)
        out = _apply(label, fn, v, "%r via %s" % (src_val, " > ".join(labels)))
        _verify(src_not, src_val, dsf, to, label if len(labels) == 1 else "chain step " + label, out)
        notation, v = to, out


def _real_fill(u):
    """A real in [-720, 720] x source notation x a chain of three conversions (edge indices from the remaining coordinates)."""
    src, r = S.u_pick(u[1], ["dec", "gon", "rad", "deca", "gona"])
    k1, r = S.u_pick(r, list(range(8)))
    k2, r = S.u_pick(u[2], list(range(8)))
    k3, r = S.u_pick(r, list(range(8)))
    return {"x": -720.0 + 1440.0 * u[0], "src": src, "chain": [k1, k2, k3], "num": "float"}


real_cases = st.fixed_dictionaries({
    "x": st.one_of(S.floats(-720.0, 720.0), S.floats(-360.0, 360.0), S.floats(-1.0, 1.0),
                   st.sampled_from([0.0, -0.0, 720.0, -720.0, 29.9999999999999, -0.9999999999999999, 359.99999999999994,
                                    624.0499999999997, -624.0499999999997, 511.99999999999994, 512.0, 1e-12, -1e-12])),
    "src": st.sampled_from(["dec", "gon", "rad", "deca", "gona"]),
    "chain": st.lists(st.integers(0, 7), min_size=1, max_size=3), "num": S.num_kind})


# ------------------------------------------------------------------------------------------------ all chains of length 3

def check_all_chains(case):
    """Every chain of three conversions (all ordered notation triples reachable through the table: 8 x 8 x 8 per source, the
    single-edge radian notation included where it occurs) from one source value in one notation."""
    E = _edges()
    notation = case["src"]
    v0 = _build(notation, case["neg"], case["d"], case["m"], case["s_nano"], case.get("ctor", "flag"))
    dsf = _fden(notation, v0)
    r0 = repr(v0)
    n = 0
    for to1, l1, f1 in E[notation]:
        v1 = _apply(l1, f1, v0, r0)
        _verify(notation, v0, dsf, to1, l1, v1)
        for to2, l2, f2 in E[to1]:
            v2 = _apply(l2, f2, v1, "%s via %s > %s" % (r0, l1, l2))
            _verify(notation, v0, dsf, to2, "chain step " + l2, v2)
            for to3, l3, f3 in E[to2]:
                v3 = _apply(l3, f3, v2, "%s via %s > %s > %s" % (r0, l1, l2, l3))
                _verify(notation, v0, dsf, to3, "chain step " + l3, v3)
                n += 1
    metric("chains_per_source", float(n))


def _chain_values(tier, seed):
    import random
    rnd = random.Random(seed * 31 + 5)
    vals = [(False, 0, 0, 0), (True, 0, 0, 1), (False, 29, 59, 59999999999), (True, 0, 30, 0), (False, 259, 2, 0), (True, 359, 59, 59 * 10 ** 9),
            (False, 511, 59, 59999999999), (False, 512, 6, 0), (True, 624, 2, 59999999990), (False, 719, 59, 59 * 10 ** 9),
            (False, 0, 15, 0), (True, 12, 34, 56789000000)]
    extra = 8 if tier == "quick" else 400
    for _ in range(extra):
        d = rnd.choice([rnd.randint(0, 359), rnd.randint(0, 719)])
        sn = rnd.choice([rnd.randint(0, 59) * 10 ** 9, rnd.randint(0, 60 * 10 ** 9 - 1), 59999999999, 10 ** 9 - 1])
        vals.append((rnd.random() < 0.5, d, rnd.randint(0, 59), sn))
    return vals


def enumerate_all_chains(tier, seed, shard, nshards):
    i = 0
    for neg, d, m, sn in _chain_values(tier, seed):
        for src in AR.NOTATIONS:
            if i % nshards == shard:
                yield {"src": src, "neg": neg, "d": d, "m": m, "s_nano": sn, "chain": []}
            i += 1


# ------------------------------------------------------------------------------------------------ (iv) invalid HP

def check_invalid(case):
    a = repo.mod("geodepy.angles")
    places = 13 if case["d"] < 512 else 12
    h = AR.hp_literal(case["neg"], case["d"], case["m"], case["s_nano"] if places == 13 else (case["s_nano"] // 10) * 10, places)
    try:
        AR.hp_seconds(h)
        raise Discard()      # the literal rounds to a valid value (cannot happen for m >= 60 or s >= 60; kept for safety)
    except AR.InvalidHP:
        pass
    for label, fn in (("hp2dec", a.hp2dec), ("HPAngle()", a.HPAngle)):
        try:
            r = fn(h)
        except Exception:      # noqa: "rejected with an error" - the statement names no exception type
            continue
        raise Fail("%s: accepted an HP value with a minutes or seconds field of 60 or more" % label, expected="an error",
                   observed={"hp": h, "result": repr(r)}, bucket=label + " accepts invalid HP")
    # the vectorised HP-to-decimal conversion: the invalid value among valid ones of the same magnitude class
    import numpy as np
    side = 600.3 if abs(h) >= 512 else 12.3
    arr = np.array([side, h, -side] if case["neg"] else [h, side])
    try:
        r = a.hp2dec_v(arr)
    except Exception:          # noqa
        return
    raise Fail("hp2dec_v: accepted an HP value with a minutes or seconds field of 60 or more", expected="an error",
               observed={"hp": arr.tolist(), "result": repr(r)}, bucket="hp2dec_v accepts invalid HP")


@st.composite
def invalid_fields(draw):
    d = draw(st.integers(0, 719))
    if draw(st.booleans()):
        m = draw(st.integers(60, 99))
        s_nano = draw(st.integers(0, 99 * 10 ** 9))
    else:
        m = draw(st.integers(0, 59))
        s_nano = draw(st.one_of(st.integers(60, 99).map(lambda s: s * 10 ** 9), st.integers(60 * 10 ** 9, 10 ** 11 - 1)))
    return {"neg": draw(st.booleans()), "d": d, "m": m, "s_nano": s_nano}


def _cls_chain(case):
    out = ["src:" + case["src"], "len:%d" % len(case["chain"])]
    if "d" in case:
        out.append("deg>=512" if case["d"] >= 512 else ("deg=0" if case["d"] == 0 else "deg<512"))
        sn = case["s_nano"] % 10 ** 9
        if sn and (sn <= 5 or sn >= 10 ** 9 - 5):
            out.append("boundary+-k*1e-9")
        if case["neg"]:
            out.append("negative")
            if case["d"] == 0:
                out.append("between -1 and 0 deg")
    return out


SUBCHECKS = [
    SubCheck("lattice_all_conversions", check_lattice, enumerate=enumerate_lattice, shards_quick=8, shards_thorough=16,
             exhaustive=True,
             rule="each lattice value as source in 9 notations x every direct function / method (65 conversions): result type, "
                  "valid HP, same angle within 1e-8\""),
    SubCheck("lattice_360_719_minutes", check_lattice, enumerate=enumerate_minutes_upper, shards_quick=8, shards_thorough=16,
             exhaustive="both", rule="every whole minute (and neighbouring seconds) of 360..719 deg, both signs, through all 65 conversions"),
    SubCheck("lattice_vectorised", check_lattice_vectorised, enumerate=enumerate_vectorised, shards_quick=2, shards_thorough=8,
             exhaustive=True, rule="hp2dec_v / dec2hp_v over 0..719 deg, both signs, one degree per call: all seconds (thorough) or every 7th second + every whole minute"),
    SubCheck("all_length3_chains", check_all_chains, enumerate=enumerate_all_chains, classes=_cls_chain, shards_quick=6, shards_thorough=16,
             rule="for a pool of boundary values (+ random ones) in each of the 9 notations: every chain of 3 conversions through the table "
                  "(about 500 per source), each step within 1e-8\" of the source"),
    SubCheck("chains_from_fields", check_chain, strategy=chain_cases, classes=_cls_chain,
             quick=6000, thorough=600000, shards_quick=4, shards_thorough=16,
             rule="angles with 1e-9\" resolution incl. boundary neighbours, in any notation, through random chains of 1..3 conversions"),
    SubCheck("chains_from_reals", check_real, strategy=real_cases, classes=_cls_chain,
             quick=4000, thorough=400000, shards_quick=4, shards_thorough=16,
             rule="random reals in [-720, 720] as dec / gon / rad numbers and objects through random chains of 1..3 conversions"),
    SubCheck("reals_fill", check_real, enumerate=S.fill(808, 3, _real_fill, 60000, 1200000), classes=_cls_chain,
             shards_quick=12, shards_thorough=16,
             rule="low-discrepancy fill of reals in [-720, 720] x source notation x chains of three conversions: 60 000 / 1 200 000 chains"),
    SubCheck("invalid_hp_rejected", check_invalid, strategy=invalid_fields(), quick=2000, thorough=100000, shards_quick=2,
             shards_thorough=4, rule="HP literals with minutes or seconds field >= 60: hp2dec and HPAngle raise ValueError"),
]
