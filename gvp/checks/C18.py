"""C18 Editing a SINEX solution keeps exactly the remaining parameters and covariance."""
import datetime
import itertools
import os
import re

import numpy as np
from hypothesis import strategies as st

from .. import repo, strategies as S
from ..core import SubCheck, Fail, Discard, HarnessError, metric
from ..oracles import sinex_file as SX

RULE = ("generated SINEX 2.02 files: 1..12 parameter sets over 1..8 station codes (codes may carry solution numbers 1..3), with / "
        "without velocities, L and U matrices from random positive-definite covariances (scales 1e-24 .. 1e-2, weakly correlated "
        "stations) with exact zero blocks, one- and two-character point codes, four techniques, optional FILE/COMMENT with data lines, header stamps that do or do not collide with other header fields; removal sets drawn per file plus every "
        "proper subset for files with <= 5 codes; wall clock substituted over the whole day and the year boundaries; "
        "non-trivial = proper non-empty removal set, or clock before 02:46:40")
ASSUMPTIONS = ["well-formed input: complete triangles, every matrix row present, fixed columns of SINEX 2.02",
               "values are compared as the floats the text denotes (the editing functions re-format numbers)",
               "header well-formedness is asserted for station removal (as stated); for velocity removal only the estimates, the "
               "covariance sub-matrix and the block structure are asserted",
               "the clock is substituted by replacing geodepy.gnss.datetime with a subclass whose now() is fixed"]


def selftest():
    SX.selftest()


_REAL_DT = []


def _set_clock(g, clock):
    """Substitute the clock the module reads: every module-level name bound to the datetime class (or to the datetime module)
    is pointed at a stand-in for the duration of the call."""
    import datetime as _dtmod
    if not _REAL_DT:
        _REAL_DT.append(_dtmod.datetime)
        _REAL_DT.append({k: v for k, v in vars(g).items() if v is _dtmod.datetime or v is _dtmod})
    base = _REAL_DT[0]
    fixed = base(*clock)

    class FakeDT(base):
        @classmethod
        def now(cls, tz=None):
            return fixed

        @classmethod
        def utcnow(cls):
            return fixed

        @classmethod
        def today(cls):
            return fixed

    class FakeModule(object):
        datetime = FakeDT
        date, timedelta, time, timezone = _dtmod.date, _dtmod.timedelta, _dtmod.time, _dtmod.timezone
    for name, v in _REAL_DT[1].items():
        setattr(g, name, FakeDT if v is _dtmod.datetime else FakeModule)


def _restore_clock(g):
    if _REAL_DT:
        for name, v in _REAL_DT[1].items():
            setattr(g, name, v)


def _is_real_now(stamp):
    """Does a YY:DDD:SSSSS stamp denote the machine's real present (within two minutes)?  Then the implementation reads a clock
    the harness did not substitute: nothing can be said about the time it would write at another hour."""
    import datetime as _dtmod
    try:
        yy, doy, sod = int(stamp[0:2]), int(stamp[3:6]), int(stamp[7:12])
    except ValueError:
        return False
    for now in (_dtmod.datetime.now(), _dtmod.datetime.utcnow()):
        t = _dtmod.datetime(2000 + yy if yy < 80 else 1900 + yy, 1, 1) + _dtmod.timedelta(days=doy - 1, seconds=sod)
        if abs((t - now).total_seconds()) <= 120:
            return True
    return False


def _run(fn, g, clock, *args):
    for f in ("output.snx",):
        if os.path.exists(f):
            os.remove(f)
    _set_clock(g, clock)
    try:
        fn(*args)
    finally:
        _restore_clock(g)
    if not os.path.exists("output.snx"):
        raise Fail("no output.snx was written", bucket="no output")
    try:
        return SX.parse("output.snx")
    except SX.Malformed as e:
        with open("output.snx") as fh:
            tail = fh.read()[-300:]
        raise Fail("the edited file is not well-formed SINEX: %s" % e, expected="every block closed on its own line, %ENDSNX last",
                   observed={"tail": tail}, bucket="malformed: " + str(e).split(":")[0][:40])


def _estimates(out, what):
    """Estimate records of an edited file; a line the strict parser cannot read is a malformed file, i.e. a violation."""
    try:
        return SX.parse_estimates(out["blocks"].get("SOLUTION/ESTIMATE", []))
    except SX.Malformed as e:
        raise Fail("%s: SOLUTION/ESTIMATE block is malformed: %s" % (what, e), bucket=what + " estimates malformed")


def _sites(codes, cont):
    """The removal set as the caller holds it: the documented list, or a tuple / set / frozenset / dict keys of the same codes."""
    codes = list(codes)
    return {"list": codes, "tuple": tuple(codes), "set": set(codes), "frozenset": frozenset(codes),
            "keys": {c: True for c in codes}.keys()}[cont]


def _spec(case):
    spec = dict(case["spec"])
    n = len(SX.records(spec))
    cov = np.array(spec["cov"], dtype=float)
    if cov.shape != (n, n):
        raise HarnessError("generated covariance has the wrong size")
    return spec


def _expected_cov(spec, keep_idx):
    cov = spec["cov"]
    return [[cov[i][j] for j in keep_idx] for i in keep_idx]


def _check_matrix(el, want, tri, what):
    n = len(want)
    exp = {}
    for i in range(n):
        for j in (range(0, i + 1) if tri == "L" else range(i, n)):
            exp[(i + 1, j + 1)] = want[i][j]
    # (an element that is not given is zero in SINEX: absent elements are accepted where the expected value is exactly 0)
    if not set(el) <= set(exp) or any(exp[k] != 0.0 for k in set(exp) - set(el)):
        miss = sorted(k for k in set(exp) - set(el) if exp[k] != 0.0)[:5]
        extra = sorted(set(el) - set(exp))[:5]
        raise Fail("%s: covariance block does not contain exactly the %s triangle of the remaining parameters" % (what, tri),
                   expected={"n": n}, observed={"missing": miss, "unexpected": extra}, bucket=what + " matrix shape")
    for k, v in exp.items():
        if el.get(k, 0.0) != v:
            raise Fail("%s: covariance element is not the original element of the remaining parameters" % what,
                       expected={"element": k, "value": v}, observed=el[k], bucket=what + " matrix values")


def _check_removal(case, spec, g, inp_lines, remove_codes, clock):
    recs = SX.records(spec)
    out = _run(g.remove_stns_sinex, g, clock, "in.snx", _sites(remove_codes, case.get("cont", "list")))
    keep = [i for i, r in enumerate(recs) if r["code"] not in remove_codes]
    # header: fixed width, fields at their columns, creation stamp well-formed, count = n, everything else untouched
    hin, hout = inp_lines[0], out["header"]
    if len(hout.rstrip()) != len(hin.rstrip()) or not SX.HEADER_RE.match(hout):
        raise Fail("remove_stns_sinex: header line is not fixed-width SINEX", expected={"len": len(hin), "like": hin},
                   observed={"len": len(hout), "header": hout, "clock": clock}, bucket="header width")
    if hout[:15] != hin[:15] or hout[27:60] != hin[27:60] or hout[65:].rstrip() != hin[65:].rstrip():
        raise Fail("remove_stns_sinex: header fields other than creation time and parameter count changed",
                   expected=hin, observed=hout, bucket="header fields")
    if hout[60:65] != "%05d" % len(keep):
        raise Fail("remove_stns_sinex: header parameter count does not match the remaining estimates", expected="%05d" % len(keep),
                   observed=hout[60:65], bucket="header count")
    yy, doy, sod = hout[15:17], int(hout[18:21]), int(hout[22:27])
    d = datetime.date(clock[0], clock[1], clock[2])
    want_sod = clock[3] * 3600 + clock[4] * 60 + clock[5]
    off_clock = yy != "%02d" % (clock[0] % 100) or doy != d.timetuple().tm_yday or abs(sod - want_sod) > 1
    if not (0 <= sod <= 86399) or (off_clock and not _is_real_now(hout[15:27])):
        raise Fail("remove_stns_sinex: creation time is not YY:DDD:SSSSS of the current time", expected={"clock": clock},
                   observed=hout[15:27], bucket="header creation time")
    # blocks present, in order
    for name in ("SITE/ID", "SOLUTION/EPOCHS", "SOLUTION/ESTIMATE", "SOLUTION/MATRIX_ESTIMATE"):
        if name not in out["blocks"]:
            raise Fail("remove_stns_sinex: block %s is missing from the output" % name, bucket="missing block")
    inp = SX.parse("in.snx")
    # site ids / epochs: remaining lines unchanged
    for name, col in (("SITE/ID", (1, 5)), ("SOLUTION/EPOCHS", (1, 5))):
        want = [ln for ln in SX.data(inp["blocks"][name]) if ln[col[0]:col[1]] not in remove_codes]
        if SX.data(out["blocks"][name]) != want:
            raise Fail("remove_stns_sinex: %s block is not the input block minus the removed stations" % name,
                       expected=want[:6], observed=out["blocks"][name][:6], bucket=name + " lines")
    # estimates
    est_in = SX.parse_estimates(inp["blocks"]["SOLUTION/ESTIMATE"])
    est_out = _estimates(out, "remove_stns_sinex")
    want_rest = [est_in[i]["rest"] for i in keep]
    if [e["rest"] for e in est_out] != want_rest:
        raise Fail("remove_stns_sinex: estimates are not exactly the remaining stations' estimates in their original order",
                   expected=want_rest[:4], observed=[e["rest"] for e in est_out][:4], bucket="estimates content")
    if [e["index"] for e in est_out] != list(range(1, len(keep) + 1)):
        raise Fail("remove_stns_sinex: estimates are not consecutively renumbered from 1", expected=list(range(1, len(keep) + 1))[:8],
                   observed=[e["index"] for e in est_out][:8], bucket="estimates numbering")
    # matrix
    if out["title"]["SOLUTION/MATRIX_ESTIMATE"] != inp["title"]["SOLUTION/MATRIX_ESTIMATE"]:
        raise Fail("remove_stns_sinex: matrix block title changed", expected=inp["title"]["SOLUTION/MATRIX_ESTIMATE"],
                   observed=out["title"]["SOLUTION/MATRIX_ESTIMATE"], bucket="matrix title")
    try:
        el = SX.parse_matrix(out["blocks"]["SOLUTION/MATRIX_ESTIMATE"])
    except SX.Malformed as e:
        raise Fail("remove_stns_sinex: matrix block is malformed: %s" % e, bucket="matrix malformed")
    _check_matrix(el, _expected_cov(spec, keep), spec["tri"], "remove_stns_sinex")
    return out


def check_remove_stations(case):
    g = repo.gnss()
    spec = _spec(case)
    inp_lines = SX.write("in.snx", spec)
    codes = sorted({s["code"] for s in spec["stations"]}, key=[s["code"] for s in spec["stations"]].index)
    for mask in case["masks"]:
        remove = [c for i, c in enumerate(codes) if (mask >> i) & 1]
        if len(remove) == len(codes):
            continue
        _check_removal(case, spec, g, inp_lines, remove, case["clock"])
    # independence of the wall clock: a second run at another time differs only in creation stamp and 'File created' comment
    remove = [c for i, c in enumerate(codes) if (case["masks"][0] >> i) & 1]
    if len(remove) < len(codes):
        _run(g.remove_stns_sinex, g, case["clock"], "in.snx", remove)
        a = open("output.snx").read().split("\n")
        _run(g.remove_stns_sinex, g, case["clock2"], "in.snx", remove)
        b = open("output.snx").read().split("\n")
        if len(a) != len(b):
            raise Fail("the edited file depends on the wall-clock time (different number of lines)", observed={"clocks": (case["clock"], case["clock2"])},
                       bucket="clock dependence")
        for i, (x, y) in enumerate(zip(a, b)):
            if x == y:
                continue
            if i == 0 and x[:15] == y[:15] and x[27:] == y[27:] and len(x) == len(y):
                continue
            if x.startswith("*") and y.startswith("*"):
                continue        # comment lines (the editing functions stamp one with the time of the run)
            raise Fail("the edited file depends on the wall-clock time beyond the creation stamp", expected=x, observed={"line": i, "other": y,
                       "clocks": (case["clock"], case["clock2"])}, bucket="clock dependence")


def check_all_subsets(case):
    g = repo.gnss()
    spec = _spec(case)
    codes = sorted({s["code"] for s in spec["stations"]}, key=[s["code"] for s in spec["stations"]].index)
    if len(codes) > 5:
        raise Discard()
    inp_lines = SX.write("in.snx", spec)
    for k in range(0, len(codes)):
        for remove in itertools.combinations(codes, k):
            _check_removal(case, spec, g, inp_lines, list(remove), case["clock"])


def check_remove_velocity(case):
    g = repo.gnss()
    spec = _spec(case)
    if not spec["vel"]:
        raise Discard()
    SX.write("in.snx", spec)
    out = _run(g.remove_velocity_sinex, g, case["clock"], "in.snx")
    inp = SX.parse("in.snx")
    recs = SX.records(spec)
    keep = [i for i, r in enumerate(recs) if r["type"].startswith("STA")]
    est_in = SX.parse_estimates(inp["blocks"]["SOLUTION/ESTIMATE"])
    est_out = _estimates(out, "remove_velocity_sinex")
    if [e["rest"] for e in est_out] != [est_in[i]["rest"] for i in keep]:
        raise Fail("remove_velocity_sinex: estimates are not exactly the position estimates", expected=[est_in[i]["rest"] for i in keep][:4],
                   observed=[e["rest"] for e in est_out][:4], bucket="velocity estimates content")
    if [e["index"] for e in est_out] != list(range(1, len(keep) + 1)):
        raise Fail("remove_velocity_sinex: position estimates are not consecutively renumbered", observed=[e["index"] for e in est_out][:8],
                   bucket="velocity estimates numbering")
    try:
        el = SX.parse_matrix(out["blocks"].get("SOLUTION/MATRIX_ESTIMATE", []))
    except SX.Malformed as e:
        raise Fail("remove_velocity_sinex: matrix block is malformed: %s" % e, bucket="velocity matrix malformed")
    _check_matrix(el, _expected_cov(spec, keep), spec["tri"], "remove_velocity_sinex")
    for name in ("SITE/ID", "SOLUTION/EPOCHS"):
        if out["blocks"].get(name) != inp["blocks"][name]:
            raise Fail("remove_velocity_sinex: %s block changed" % name, expected=inp["blocks"][name][:4], observed=(out["blocks"].get(name) or [])[:4],
                       bucket="velocity " + name)
    # header: what is not edited (agency codes, data start / end, constraint code) stays where it was; the count is the number of
    # remaining parameters in its five-digit field; the solution no longer lists velocities
    hin, hout = inp["header"], out["header"].rstrip("\n")
    if hout[:15] != hin[:15] or hout[27:60] != hin[27:60] or hout[65:68] != hin[65:68]:
        raise Fail("remove_velocity_sinex: header fields other than creation time, parameter count and solution contents changed",
                   expected=hin, observed=hout, bucket="velocity header fields")
    if hout[60:65] != "%05d" % len(keep):
        raise Fail("remove_velocity_sinex: header parameter count does not match the remaining estimates", expected="%05d" % len(keep),
                   observed=hout[60:65], bucket="velocity header count")
    if "V" in hout[68:].split() or "S" not in hout[68:].split():
        raise Fail("remove_velocity_sinex: header solution contents are not the station parameters only", expected="S", observed=hout[68:],
                   bucket="velocity header contents")


def check_remove_zeros(case):
    g = repo.gnss()
    spec = _spec(case)
    SX.write("in.snx", spec)
    out = _run(g.remove_matrixzeros_sinex, g, case["clock"], "in.snx")
    inp = SX.parse("in.snx")
    for name in ("SITE/ID", "SOLUTION/EPOCHS", "SOLUTION/ESTIMATE"):
        if out["blocks"].get(name) != inp["blocks"][name]:
            raise Fail("remove_matrixzeros_sinex: %s block is not unchanged" % name, expected=inp["blocks"][name][:4],
                       observed=(out["blocks"].get(name) or [])[:4], bucket="zeros " + name)
    # a line is all-zero when every element it carries is the number zero (decided on the values, not on their spelling)
    want = [ln for ln in inp["blocks"]["SOLUTION/MATRIX_ESTIMATE"]
            if ln.startswith("*") or not all(float(v) == 0.0 for v in ln.split()[2:])]
    got = out["blocks"].get("SOLUTION/MATRIX_ESTIMATE")
    if got != want:
        raise Fail("remove_matrixzeros_sinex: matrix block is not the input block minus its all-zero lines, each on its own line",
                   expected=want[:5], observed=(got or [])[:5], bucket="zeros matrix")
    hin, hout = inp["header"], out["header"]
    if hout[:15] != hin[:15] or hout[27:].rstrip() != hin[27:].rstrip():
        raise Fail("remove_matrixzeros_sinex: header changed beyond the creation time", expected=hin, observed=hout, bucket="zeros header")


def check_readers(case):
    g = repo.gnss()
    spec = _spec(case)
    SX.write("in.snx", spec)
    recs = SX.records(spec)
    npar = 6 if spec["vel"] else 3
    est = g.read_sinex_estimate("in.snx")
    want = []
    for k, s in enumerate(spec["stations"]):
        r = recs[k * npar:(k + 1) * npar]
        row = [s["code"], str(s["soln"]), spec["mean"]] + [x["value"] for x in r[:3]] + [float("%11.5e" % x["sd"]) for x in r[:3]]
        if spec["vel"]:
            row += [x["value"] for x in r[3:]] + [float("%11.5e" % x["sd"]) for x in r[3:]]
        want.append(tuple(row))
    if [tuple(t) for t in est] != want:
        raise Fail("read_sinex_estimate does not return exactly the values written", expected=want[:2], observed=[tuple(t) for t in est][:2],
                   bucket="read estimate")
    mat = g.read_sinex_matrix("in.snx")
    cov = spec["cov"]
    if len(mat) != len(spec["stations"]):
        raise Fail("read_sinex_matrix does not return one entry per solution", expected=len(spec["stations"]), observed=len(mat),
                   bucket="read matrix length")
    for k, (s, row) in enumerate(zip(spec["stations"], mat)):
        b = k * npar
        blocks = [b] + ([b + 3] if spec["vel"] else [])
        doc, alt = [], []
        for o in blocks:
            c = [[cov[o + i][o + j] for j in range(3)] for i in range(3)]
            doc += [c[0][0], c[0][1], c[0][2], c[1][1], c[1][2], c[2][2]]
            alt += [c[0][0], c[1][0], c[1][1], c[2][0], c[2][1], c[2][2]]
        head = (row[0], row[1])
        vals = [float(v) for v in row[2:]]
        if head != (s["code"], str(s["soln"])) or (vals != doc and not (spec["tri"] == "L" and vals == alt)):
            raise Fail("read_sinex_matrix does not return exactly the variances / covariances written for the station",
                       expected={"code": s["code"], "soln": s["soln"], "values": doc, "or_for_L": alt}, observed={"row": [row[0], row[1]] + vals},
                       bucket="read matrix")
    sites = g.read_sinex_sites("in.snx")
    seen, uniq = set(), []
    for s in spec["stations"]:
        if s["code"] not in seen:
            seen.add(s["code"])
            uniq.append(s)
    if len(sites) != len(uniq):
        raise Fail("read_sinex_sites does not return one entry per site", expected=len(uniq), observed=len(sites), bucket="read sites length")
    for s, t in zip(uniq, sites):
        site, point, domes, obs, desc, lon, lat, h = t
        ok = (site == s["code"] and point.strip() == s["pt"].strip() and domes == s["domes"] and obs == s.get("tech", "P") and desc.strip() == s["desc"].strip())
        for ang, w in ((lon, s["lon"]), (lat, s["lat"])):
            ok = ok and (ang.degree, ang.minute, ang.second, ang.positive) == (w[1], w[2], w[3], not w[0])
        ok = ok and h == s["h"]
        if not ok:
            raise Fail("read_sinex_sites does not return exactly the site identification written",
                       expected={k: s[k] for k in ("code", "pt", "domes", "desc", "lon", "lat", "h")},
                       observed=(site, point, domes, obs, desc, repr(lon), repr(lat), h), bucket="read sites")


# ------------------------------------------------------------------------------------------------ generators

_unit = S.floats(0.0, 1.0)
CODE_CH = "ABCDEFGHIJKLMNOPQRSTUVWXYZ0123456789"


def _stamp(draw, y2=None):
    return "%02d:%03d:%05d" % (draw(st.integers(0, 99)) if y2 is None else y2, draw(st.integers(1, 365)), draw(st.integers(0, 86399)))


CLOCKS = [(2024, 1, 1, 0, 0, 0, 0), (2024, 1, 1, 0, 16, 39, 0), (2023, 6, 1, 2, 46, 39, 0), (2023, 6, 1, 2, 46, 40, 0),
          (2022, 3, 5, 12, 0, 0, 0), (2024, 12, 31, 23, 59, 59, 0), (2024, 12, 31, 23, 59, 59, 600000), (2023, 12, 31, 23, 59, 59, 999999),
          (2000, 1, 1, 0, 0, 5, 0), (2024, 2, 29, 0, 0, 9, 500000), (1999, 4, 10, 0, 1, 39, 0)]


@st.composite
def clocks(draw):
    if draw(st.integers(0, 2)) < 2:
        return list(draw(st.sampled_from(CLOCKS)))
    d = datetime.date.fromordinal(draw(st.integers(datetime.date(1995, 1, 1).toordinal(), datetime.date(2049, 12, 31).toordinal())))
    return [d.year, d.month, d.day, draw(st.integers(0, 23)), draw(st.integers(0, 59)), draw(st.integers(0, 59)), draw(st.integers(0, 999999))]


@st.composite
def specs(draw, vel=None, max_sets=12):
    vel = draw(st.booleans()) if vel is None else vel
    ncodes = draw(st.integers(1, 8))
    codes = []
    while len(codes) < ncodes:
        c = "".join(draw(st.sampled_from(CODE_CH)) for _ in range(4))
        if c not in codes and not c[0].isdigit():
            codes.append(c)
    stations = []
    for c in codes:
        nsol = draw(st.sampled_from([1, 1, 1, 2, 3]))
        pt = draw(st.sampled_from(["A", "A", "A", "B", "AB"]))               # point code: two-character field
        tech = draw(st.sampled_from(["P", "P", "R", "L", "C"]))              # observation technique
        lon = [False, draw(st.integers(0, 359)), draw(st.integers(0, 59)), draw(st.integers(0, 599)) / 10.0]
        lat = [draw(st.booleans()), draw(st.integers(0, 89)), draw(st.integers(0, 59)), draw(st.integers(0, 599)) / 10.0]
        h = draw(st.one_of(st.integers(-999, 88000).map(lambda v: v / 10.0), st.sampled_from([603.2, 0.0, -12.5, 1234.5, 8848.9])))
        for k in range(nsol):
            if len(stations) >= max_sets:
                break
            stations.append({"code": c, "pt": pt, "tech": tech, "soln": k + 1, "domes": "%05dM%03d" % (draw(st.integers(10000, 99999)), draw(st.integers(1, 9))),
                             "desc": draw(st.sampled_from(["Alice Springs AU", "Victoria/Sidney, Canad", "Mt Stromlo", "X"])),
                             "lon": lon, "lat": lat, "h": h,
                             "xyz": [SX.quantise((draw(_unit) * 2 - 1) * 6.4e6) for _ in range(3)],
                             "vxyz": [SX.quantise((draw(_unit) * 2 - 1) * 0.08) for _ in range(3)]})
    # one DOMES per code
    first = {}
    for s in stations:
        first.setdefault(s["code"], s["domes"])
        s["domes"] = first[s["code"]]
    npar = len(stations) * (6 if vel else 3)
    # positive-definite covariance with exact zero blocks between some parameter groups
    seed = draw(st.integers(0, 2 ** 31 - 1))
    rng = np.random.RandomState(seed)
    A = rng.uniform(-1, 1, (npar, npar))
    grp = rng.randint(0, draw(st.sampled_from([1, 2, 3])), size=npar // 3)
    mask = np.array([[1.0 if grp[i // 3] == grp[j // 3] else 0.0 for j in range(npar)] for i in range(npar)])
    scale = draw(st.one_of(S.log_uniform(1e-8, 1e-2), S.log_uniform(1e-8, 1e-2), S.log_uniform(1e-24, 1e-10)))
    C = (A @ A.T) * mask * scale
    C = C + np.eye(npar) * min(1e-9, scale * 1e-3)
    if draw(st.integers(0, 5)) == 0:
        # very weakly correlated stations: cross terms many orders of magnitude below the variances, but not zero
        blk = np.array([[1.0 if i // 3 == j // 3 else draw(st.sampled_from([1e-9, 1e-12, 0.0])) for j in range(npar)] for i in range(npar)])
        C = C * np.minimum(blk, blk.T)
    cov = [[SX.quantise(float(C[max(i, j)][min(i, j)])) + 0.0 for j in range(npar)] for i in range(npar)]
    sd = [float(np.sqrt(cov[i][i])) for i in range(npar)]
    created = _stamp(draw)
    start = _stamp(draw)
    sel = draw(st.integers(0, 9))
    if sel == 0:
        start = created                                   # creation time equal to the data start time
    elif sel in (1, 2):
        start = start[:7] + "%05d" % npar                 # seconds field equal to the parameter count field
    end = _stamp(draw)
    if sel == 3:
        end = end[:7] + "%05d" % max(npar - 3, 0)
    return {"agency": draw(st.sampled_from(["AUS", "IGS", "GA ", "V01"])).strip().ljust(3, "X"), "created": created, "start": start,
            "end": end, "mean": _stamp(draw), "vel": vel, "tri": draw(st.sampled_from(["L", "U"])), "comment": draw(st.booleans()), "comment_data": draw(st.booleans()),
            "stations": stations, "cov": cov, "sd": sd}


@st.composite
def cases(draw, vel=None, max_sets=12):
    spec = draw(specs(vel=vel, max_sets=max_sets))
    ncodes = len({s["code"] for s in spec["stations"]})
    full = (1 << ncodes) - 1
    masks = [draw(st.sampled_from([0, 1, full >> 1, full & ~1, 1 << (ncodes - 1)]))]
    for _ in range(draw(st.integers(1, 3))):
        masks.append(draw(st.integers(0, full)))
    masks = [m for m in masks if m != full] or [0]
    return {"spec": spec, "masks": masks, "clock": draw(clocks()), "clock2": draw(clocks()),
            "cont": draw(st.sampled_from(["list", "list", "list", "tuple", "set", "frozenset", "keys"]))}


def _nt(case):
    ncodes = len({s["code"] for s in case["spec"]["stations"]})
    proper = any(0 < m < (1 << ncodes) - 1 for m in case["masks"])
    c = case["clock"]
    return proper or (c[3] * 3600 + c[4] * 60 + c[5] < 10000)


def _classes(case):
    sp = case["spec"]
    codes = [s["code"] for s in sp["stations"]]
    out = ["vel" if sp["vel"] else "no-vel", "tri:" + sp["tri"], "comment" if sp["comment"] else "no-comment",
           "sets:%d" % min(len(codes), 12), "multi-solution" if len(set(codes)) < len(codes) else "single-solution"]
    c = case["clock"]
    sod = c[3] * 3600 + c[4] * 60 + c[5]
    out.append("clock<1000s" if sod < 1000 else ("clock<10000s" if sod < 10000 else "clock>=10000s"))
    if sp["start"] == sp["created"]:
        out.append("start==created")
    if sp["start"][7:] == "%05d" % (len(codes) * (6 if sp["vel"] else 3)):
        out.append("stamp==count")
    return out


def check_edit_program(case):
    """A sequence of edits, each applied to the file the previous one wrote (the output of an edit is a well-formed SINEX solution,
    so it is in the quantifier again); after every step the file is compared with a model: the set of surviving parameters of
    the ORIGINAL solution."""
    import shutil
    g = repo.gnss()
    spec = _spec(case)
    SX.write("in.snx", spec)
    shutil.copy("in.snx", "orig.snx")
    orig = SX.parse("orig.snx")
    recs = SX.records(spec)
    est0 = SX.parse_estimates(orig["blocks"]["SOLUTION/ESTIMATE"])
    codes = sorted({s["code"] for s in spec["stations"]}, key=[s["code"] for s in spec["stations"]].index)
    keep = list(range(len(recs)))           # model: indices of the original parameters still in the file
    gone = set()                            # model: station codes removed so far
    has_vel = bool(spec["vel"])
    zeros_done = False
    steps = 0
    for k, op in enumerate(case["program"]):
        clock = case["clocks"][k % len(case["clocks"])]
        what = None
        if op[0] == "remove" and not zeros_done:
            left = [c for c in codes if c not in gone]
            remove = [c for i, c in enumerate(codes) if (op[1] >> i) & 1 and c not in gone]
            if len(remove) >= len(left):
                continue
            out = _run(g.remove_stns_sinex, g, clock, "in.snx", list(remove))
            gone.update(remove)
            keep = [i for i in keep if recs[i]["code"] not in gone]
            what = "remove_stns_sinex(%s)" % ",".join(remove)
        elif op[0] == "velocity" and has_vel and not zeros_done:
            out = _run(g.remove_velocity_sinex, g, clock, "in.snx")
            has_vel = False
            keep = [i for i in keep if recs[i]["type"].startswith("STA")]
            what = "remove_velocity_sinex"
        elif op[0] == "zeros" and not zeros_done:
            out = _run(g.remove_matrixzeros_sinex, g, clock, "in.snx")
            zeros_done = True               # (lines are now missing from the triangle: no further edit is in the quantifier)
            what = "remove_matrixzeros_sinex"
        else:
            continue
        steps += 1
        where = "step %d (%s) of an edit sequence" % (steps, what)
        hout = out["header"]
        # (fixed columns up to the constraint code; the list of solution contents behind it legitimately loses its V)
        if not SX.HEADER_RE.match(hout) or (has_vel or not spec["vel"]) and len(hout.rstrip()) != len(orig["header"].rstrip()):
            raise Fail("%s: header line is not fixed-width SINEX" % where, expected=orig["header"], observed=hout, bucket="program header width")
        if hout[60:65] != "%05d" % len(keep):
            raise Fail("%s: header parameter count does not match the remaining estimates" % where, expected="%05d" % len(keep),
                       observed=hout[60:65], bucket="program header count")
        if hout[:15] != orig["header"][:15] or hout[27:60] != orig["header"][27:60]:
            raise Fail("%s: header fields other than creation time, count and contents changed" % where, expected=orig["header"], observed=hout,
                       bucket="program header fields")
        for name, col in (("SITE/ID", (1, 5)), ("SOLUTION/EPOCHS", (1, 5))):
            want = [ln for ln in SX.data(orig["blocks"][name]) if ln[col[0]:col[1]] not in gone]
            if SX.data(out["blocks"].get(name, [])) != want:
                raise Fail("%s: %s block is not the original block minus the removed stations" % (where, name), expected=want[:6],
                           observed=out["blocks"].get(name, [])[:6], bucket="program " + name)
        est = _estimates(out, where)
        if [e["rest"] for e in est] != [est0[i]["rest"] for i in keep]:
            raise Fail("%s: estimates are not exactly the surviving estimates of the original solution, in order" % where,
                       expected=[est0[i]["rest"] for i in keep][:4], observed=[e["rest"] for e in est][:4], bucket="program estimates content")
        if [e["index"] for e in est] != list(range(1, len(keep) + 1)):
            raise Fail("%s: estimates are not consecutively renumbered from 1" % where, observed=[e["index"] for e in est][:8],
                       bucket="program estimates numbering")
        if out["title"].get("SOLUTION/MATRIX_ESTIMATE") != orig["title"]["SOLUTION/MATRIX_ESTIMATE"]:
            raise Fail("%s: matrix block title changed" % where, expected=orig["title"]["SOLUTION/MATRIX_ESTIMATE"],
                       observed=out["title"].get("SOLUTION/MATRIX_ESTIMATE"), bucket="program matrix title")
        try:
            el = SX.parse_matrix(out["blocks"].get("SOLUTION/MATRIX_ESTIMATE", []))
        except SX.Malformed as e:
            raise Fail("%s: matrix block is malformed: %s" % (where, e), bucket="program matrix malformed")
        _check_matrix(el, _expected_cov(spec, keep), spec["tri"], where)
        os.replace("output.snx", "in.snx")
    if steps < 2:
        raise Discard()


@st.composite
def programs(draw):
    spec = draw(specs(max_sets=10))
    ncodes = len({s["code"] for s in spec["stations"]})
    full = (1 << ncodes) - 1
    ops = []
    for _ in range(draw(st.integers(2, 5))):
        kind = draw(st.sampled_from(["remove", "remove", "remove", "velocity"]))
        ops.append(["remove", draw(st.one_of(st.integers(0, full), st.sampled_from([0, 1, 1 << (ncodes - 1)])))] if kind == "remove" else ["velocity"])
    if draw(st.booleans()):
        ops.append(["zeros"])
    return {"spec": spec, "program": ops, "clocks": [draw(clocks()) for _ in range(3)]}


def _classes_prog(case):
    ops = [o[0] for o in case["program"]]
    out = ["ops:%d" % len(ops), "vel" if case["spec"]["vel"] else "no-vel", "tri:" + case["spec"]["tri"]]
    if case["spec"]["vel"] and "velocity" in ops and "remove" in ops:
        out.append("velocity before removal" if ops.index("velocity") < max(i for i, o in enumerate(ops) if o == "remove") else "removal before velocity")
    if ops.count("remove") >= 2:
        out.append("repeated removal")
    if "zeros" in ops:
        out.append("zeros last")
    return out


SUBCHECKS = [
    SubCheck("remove_stations", check_remove_stations, strategy=cases(), nontrivial=_nt, classes=_classes, quick=240, thorough=12000,
             shards_quick=8, shards_thorough=16,
             fresh=(8, 64, 3), rule="remove_stns_sinex: strict parse; header width / fields / count / creation stamp; SITE/ID, EPOCHS, ESTIMATE = remaining "
                  "lines (renumbered); matrix = original minus removed rows / columns, same triangle; second run at another clock "
                  "differs only in the creation stamp and the 'File created' comment"),
    SubCheck("remove_stations_all_subsets", check_all_subsets, strategy=cases(max_sets=8), nontrivial=_nt, classes=_classes, quick=40,
             thorough=1500, shards_quick=4, shards_thorough=16, rule="every proper subset of the codes as removal set for files with <= 5 codes (complete per file)"),
    SubCheck("remove_velocities", check_remove_velocity, strategy=cases(vel=True), classes=_classes, quick=160, thorough=8000,
             shards_quick=4, shards_thorough=16,
             rule="remove_velocity_sinex: estimates = position records renumbered, matrix = position sub-matrix, blocks well-formed"),
    SubCheck("remove_matrix_zeros", check_remove_zeros, strategy=cases(), classes=_classes, quick=160, thorough=8000, shards_quick=4,
             shards_thorough=16, rule="remove_matrixzeros_sinex: output = input minus all-zero matrix lines, every line on its own line"),
    SubCheck("readers", check_readers, strategy=cases(), classes=_classes, quick=240, thorough=12000, shards_quick=4, shards_thorough=16,
             rule="read_sinex_estimate / read_sinex_matrix / read_sinex_sites return exactly the values written"),
    SubCheck("edit_programs", check_edit_program, strategy=programs(), classes=_classes_prog, quick=160, thorough=8000, shards_quick=8, shards_thorough=16,
             rule="model-based: 2..6 edits in sequence (station removals with arbitrary sets, velocity removal, matrix-zero removal last), "
                  "each reading the file the previous one wrote; after every step header count / width, SITE/ID, EPOCHS, estimates and "
                  "covariance equal the surviving parameters of the ORIGINAL solution; non-trivial = at least two effective edits"),
]
