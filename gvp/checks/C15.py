"""C15 Coordinate objects convert consistently and carry heights unchanged."""
import math
import warnings

import numpy as np

from hypothesis import strategies as st

from .. import repo, strategies as S
from ..core import SubCheck, Fail, Discard, metric, HarnessError
from ..oracles import angle_ref as AR
from .C03 import closed_form

RULE = ("positions world-wide inside the TM band (ISG: inside its zones), ellipsoidal / orthometric height each absent / 0 / "
        "random, N value absent / 0 / random, six notations as source and target, ellipsoid GRS80 / ANS, projection UTM / ISG, "
        "random conversion chains of length 2..8 over {cart, geo(notation), tm, notation(T)} from a CoordGeo, CoordCart or user-built "
        "CoordTM, called positionally, by keyword or with the documented defaults left out; non-trivial = chain touching at "
        "least two coordinate kinds with at least one zero or absent height")
ASSUMPTIONS = ["one ellipsoid and one projection per chain (changing them mid-chain is a datum change, not a conversion)",
               "'exactly the numbers the functional conversions give': attribute == functional result (==), angles compared "
               "after the library's own notation conversion of the functional decimal-degree value",
               "closure is measured in Cartesian space with the closed form of C03 (absent ellipsoidal height = 0 m)"]

NOTATIONS = ["float", "dec", "hp", "gon", "dms", "ddm"]


def _ntype(name):
    a = repo.mod("geodepy.angles")
    return {"float": float, "dec": a.DECAngle, "hp": a.HPAngle, "gon": a.GONAngle, "dms": a.DMSAngle, "ddm": a.DDMAngle}[name]


def _from_dec(name, x):
    """What the coordinate classes document: DECAngle(x) and its conversion methods."""
    a = repo.mod("geodepy.angles")
    if name == "float":
        return x
    d = a.DECAngle(x)
    return {"dec": lambda: d, "hp": d.hpa, "gon": d.gona, "dms": d.dms, "ddm": d.ddm}[name]()


def _same_angle(u, v):
    if type(u) is not type(v):
        return False
    if isinstance(u, float):
        return float(u) == float(v)
    # the public fields of the angle classes (private attributes, caches or __slots__ are the implementation's business)
    fields = [f for f in ("dec_angle", "hp_angle", "gon_angle", "degree", "minute", "second", "positive") if hasattr(u, f) or hasattr(v, f)]
    return all(getattr(u, f, None) == getattr(v, f, None) for f in fields)


def _deg(x):
    return float(x) if type(x) is float else float(x.dec())


def _kind(o):
    return type(o).__name__


def _xyz_of(o, ellname, prj):
    """Cartesian position of any coordinate object through the functional API (for closure only)."""
    cv = repo.mod("geodepy.convert")
    ell = S.make_ellipsoid(ellname)
    a, invf = S.ellipsoid_params(ellname)
    k = _kind(o)
    if k == "CoordCart":
        return (o.xaxis, o.yaxis, o.zaxis)
    if k == "CoordGeo":
        return closed_form(_deg(o.lat), _deg(o.lon), o.ell_ht or 0.0, a, invf)
    with warnings.catch_warnings():
        warnings.simplefilter("ignore", UserWarning)
        lat, lon = cv.grid2geo(o.zone, o.east, o.north, "north" if o.hemi_north else "south", ell, S.make_projection(prj))[:2]
    return closed_form(lat, lon, o.ell_ht or 0.0, a, invf)


def _call(method, form, ellname, prj, ell, proj=None, T=None, arg=None):
    """Call a conversion method in the call form of the case: positional, keyword, or with the documented defaults left out
    (GRS80, UTM, DECAngle) where they are what the case asks for."""
    kw = {"ellipsoid": ell}
    if proj is not None:
        kw["projection"] = proj
    if T is not None:
        kw["notation"] = T
    if form == "keyword":
        return method(**kw)
    if form == "defaults":
        if ellname == "grs80":
            kw.pop("ellipsoid")
        if proj is not None and prj == "utm":
            kw.pop("projection")
        if T is not None and arg == "dec":
            kw.pop("notation")
        return method(**kw)
    return method(*[v for v in (ell, proj, T) if v is not None])


def _same_projection(p, q):
    fields = ("falseeast", "falsenorth", "cmscale", "zonewidth", "initialcm")
    return type(p) is type(q) and all(getattr(p, f, None) == getattr(q, f, None) for f in fields)


def _step(o, step, ellname, prj, form="positional"):
    """Apply one conversion and check it against the functional API. Returns the new object."""
    cv = repo.mod("geodepy.convert")
    co = repo.mod("geodepy.coord")
    ell = S.make_ellipsoid(ellname)
    proj = S.make_projection(prj)
    k = _kind(o)
    op, _, arg = step.partition(":")
    with warnings.catch_warnings():
        warnings.simplefilter("ignore", UserWarning)
        if k == "CoordGeo":
            if op == "cart":
                r = _call(o.cart, form, ellname, prj, ell)
                want = cv.llh2xyz(o.lat, o.lon, o.ell_ht if o.ell_ht is not None else 0, ell)
                if (r.xaxis, r.yaxis, r.zaxis) != tuple(float(v) for v in want):
                    raise Fail("CoordGeo.cart: X, Y, Z are not llh2xyz of the same latitude, longitude, height and ellipsoid",
                               expected=want, observed=(r.xaxis, r.yaxis, r.zaxis), bucket="geo.cart xyz")
                if o.ell_ht is not None and o.orth_ht is not None:
                    if r.nval is None or r.nval != o.ell_ht - o.orth_ht:
                        raise Fail("CoordGeo.cart: N value is not ellipsoidal height - orthometric height",
                                   expected=o.ell_ht - o.orth_ht, observed={"nval": r.nval, "ell_ht": o.ell_ht, "orth_ht": o.orth_ht},
                                   bucket="geo.cart nval")
                elif r.nval is not None:
                    raise Fail("CoordGeo.cart: an N value appeared although a height is absent", expected=None, observed=r.nval,
                               bucket="geo.cart nval")
                return r
            if op == "tm":
                r = _call(o.tm, form, ellname, prj, ell, proj)
                want = cv.geo2grid(o.lat, o.lon, 0, ell, proj)
                if (r.zone, r.east, r.north, r.hemi_north) != (want[1], want[2], want[3], want[0] == "North"):
                    raise Fail("CoordGeo.tm: zone / easting / northing / hemisphere are not geo2grid of the same ellipsoid and projection",
                               expected=want[:4], observed=(r.zone, r.east, r.north, r.hemi_north), bucket="geo.tm grid")
                if not _same_projection(r.projection, proj):
                    raise Fail("CoordGeo.tm: the result does not carry the requested projection", bucket="geo.tm projection")
                if (r.ell_ht, r.orth_ht) != (o.ell_ht, o.orth_ht):
                    raise Fail("CoordGeo.tm: heights are not preserved", expected=(o.ell_ht, o.orth_ht), observed=(r.ell_ht, r.orth_ht),
                               bucket="geo.tm heights")
                return r
            if op in ("notation", "geo"):
                T = _ntype(arg)
                r = o.notation(T)
                if type(r.lat) is not T or type(r.lon) is not T:
                    raise Fail("CoordGeo.notation: result is not held in the requested notation", expected=T.__name__,
                               observed=(type(r.lat).__name__, type(r.lon).__name__), bucket="notation type")
                for nm, u, v in (("lat", o.lat, r.lat), ("lon", o.lon, r.lon)):
                    du = AR.denote("dec", float(u)) if type(u) is float else AR.denote(_nname(u), u)
                    dv = AR.denote("dec", float(v)) if type(v) is float else AR.denote(_nname(v), v)
                    if abs(du - dv) > AR.TOL:
                        raise Fail("CoordGeo.notation changed the position, not only the representation",
                                   expected={nm: repr(u)}, observed={nm: repr(v), "diff_arcsec": float(abs(du - dv))},
                                   bucket="notation value")
                if (r.ell_ht, r.orth_ht) != (o.ell_ht, o.orth_ht):
                    raise Fail("CoordGeo.notation: heights are not preserved", expected=(o.ell_ht, o.orth_ht),
                               observed=(r.ell_ht, r.orth_ht), bucket="notation heights")
                return r
        if k == "CoordCart":
            if op in ("geo", "notation"):
                T = _ntype(arg)
                r = _call(o.geo, form, ellname, prj, ell, None, T, arg)
                lat, lon, h = cv.xyz2llh(o.xaxis, o.yaxis, o.zaxis, ell)
                if not (_same_angle(r.lat, _from_dec(arg, lat)) and _same_angle(r.lon, _from_dec(arg, lon))):
                    raise Fail("CoordCart.geo: latitude / longitude are not xyz2llh of the same ellipsoid in the requested notation",
                               expected=(repr(_from_dec(arg, lat)), repr(_from_dec(arg, lon))), observed=(repr(r.lat), repr(r.lon)),
                               bucket="cart.geo latlon")
                if r.ell_ht != h:
                    raise Fail("CoordCart.geo: ellipsoidal height is not xyz2llh's", expected=h, observed=r.ell_ht, bucket="cart.geo h")
                if o.nval is not None:
                    if r.orth_ht is None or r.orth_ht != h - o.nval:
                        raise Fail("CoordCart.geo: orthometric height is not ellipsoidal height - N value", expected=h - o.nval,
                                   observed=r.orth_ht, bucket="cart.geo orth")
                elif r.orth_ht is not None:
                    raise Fail("CoordCart.geo: an orthometric height appeared without an N value", observed=r.orth_ht,
                               bucket="cart.geo orth")
                return r
            if op == "tm":
                r = _call(o.tm, form, ellname, prj, ell, proj)
                lat, lon, h = cv.xyz2llh(o.xaxis, o.yaxis, o.zaxis, ell)
                want = cv.geo2grid(lat, lon, 0, ell, proj)
                if not _same_projection(r.projection, proj):
                    raise Fail("CoordCart.tm: the result does not carry the requested projection", bucket="cart.tm projection")
                if (r.zone, r.east, r.north, r.hemi_north) != (want[1], want[2], want[3], want[0] == "North"):
                    raise Fail("CoordCart.tm: grid coordinates are not geo2grid(xyz2llh(...)) of the same ellipsoid and projection",
                               expected=want[:4], observed=(r.zone, r.east, r.north, r.hemi_north), bucket="cart.tm grid")
                if r.ell_ht != h or (o.nval is not None and r.orth_ht != h - o.nval) or (o.nval is None and r.orth_ht is not None):
                    raise Fail("CoordCart.tm: heights do not follow ellipsoidal height / N value", expected=(h, o.nval),
                               observed=(r.ell_ht, r.orth_ht), bucket="cart.tm heights")
                return r
        if k == "CoordTM":
            hemi = "north" if o.hemi_north else "south"
            if op in ("geo", "notation"):
                T = _ntype(arg)
                r = _call(o.geo, form, ellname, prj, ell, None, T, arg)
                lat, lon = cv.grid2geo(o.zone, o.east, o.north, hemi, ell, o.projection)[:2]
                if not (_same_angle(r.lat, _from_dec(arg, lat)) and _same_angle(r.lon, _from_dec(arg, lon))):
                    raise Fail("CoordTM.geo: latitude / longitude are not grid2geo of the same ellipsoid and projection",
                               expected=(repr(_from_dec(arg, lat)), repr(_from_dec(arg, lon))), observed=(repr(r.lat), repr(r.lon)),
                               bucket="tm.geo latlon")
                if (r.ell_ht, r.orth_ht) != (o.ell_ht, o.orth_ht):
                    raise Fail("CoordTM.geo: heights are not preserved", expected=(o.ell_ht, o.orth_ht), observed=(r.ell_ht, r.orth_ht),
                               bucket="tm.geo heights")
                return r
            if op == "cart":
                r = _call(o.cart, form, ellname, prj, ell)
                lat, lon = cv.grid2geo(o.zone, o.east, o.north, hemi, ell, o.projection)[:2]
                want = cv.llh2xyz(lat, lon, o.ell_ht if o.ell_ht is not None else 0, ell)
                if (r.xaxis, r.yaxis, r.zaxis) != tuple(float(v) for v in want):
                    raise Fail("CoordTM.cart: X, Y, Z are not llh2xyz(grid2geo(...)) of the same ellipsoid and projection",
                               expected=want, observed=(r.xaxis, r.yaxis, r.zaxis), bucket="tm.cart xyz")
                if o.ell_ht is not None and o.orth_ht is not None:
                    if r.nval is None or r.nval != o.ell_ht - o.orth_ht:
                        raise Fail("CoordTM.cart: N value is not ellipsoidal height - orthometric height",
                                   expected=o.ell_ht - o.orth_ht, observed=r.nval, bucket="tm.cart nval")
                elif r.nval is not None:
                    raise Fail("CoordTM.cart: an N value appeared although a height is absent", observed=r.nval, bucket="tm.cart nval")
                return r
    return None      # the step does not apply to this kind (e.g. cart on a CoordCart)


def _nname(obj):
    return {"DECAngle": "deca", "HPAngle": "hpa", "GONAngle": "gona", "DMSAngle": "dms", "DDMAngle": "ddm"}[type(obj).__name__]


def check_chain(case):
    co = repo.mod("geodepy.coord")
    ellname, prj = case["ell"], case["prj"]
    lat, lon = case["lat"], case["lon"]
    la0, lo0 = _from_dec(case["notation"], lat), _from_dec(case["notation"], lon)
    hk = case.get("hnum", "float")

    def _h(v):
        # the same height as the caller may hold it: a Python int or a numpy scalar where those hold the value exactly
        if v is None or hk == "float":
            return v
        if hk == "np64":
            return np.float64(v)
        if float(v).is_integer():
            return int(v) if hk == "int" else np.int64(int(v))
        return v
    start = co.CoordGeo(la0, lo0, _h(case["h_ell"]), _h(case["h_orth"]))
    if (start.ell_ht, start.orth_ht) != (case["h_ell"], case["h_orth"]) or not (_same_angle(start.lat, la0) and _same_angle(start.lon, lo0)):
        raise Fail("CoordGeo does not hold the latitude, longitude and heights it was given",
                   expected=(repr(la0), repr(lo0), case["h_ell"], case["h_orth"]),
                   observed=(repr(start.lat), repr(start.lon), start.ell_ht, start.orth_ht), bucket="geo ctor")
    if case["start"] == "tm":
        # a projected coordinate built by the user (the defaults - southern hemisphere, UTM - left out where they apply)
        cv = repo.mod("geodepy.convert")
        proj = S.make_projection(prj)
        with warnings.catch_warnings():
            warnings.simplefilter("ignore", UserWarning)
            g = cv.geo2grid(lat, lon, 0, S.make_ellipsoid(ellname), proj)
        kw = {}
        if g[0] == "North" or case.get("form") != "defaults":
            kw["hemi_north"] = (g[0] == "North")
        if prj != "utm" or case.get("form") != "defaults":
            kw["projection"] = proj
        start = co.CoordTM(g[1], g[2], g[3], case["h_ell"], case["h_orth"], **kw)
        if (start.zone, start.east, start.north, start.ell_ht, start.orth_ht, start.hemi_north) != \
                (g[1], g[2], g[3], case["h_ell"], case["h_orth"], g[0] == "North") or not _same_projection(start.projection, proj):
            raise Fail("CoordTM does not hold the zone, coordinates, heights, hemisphere and projection it was given",
                       expected=(g[1], g[2], g[3], case["h_ell"], case["h_orth"], g[0]), observed=repr(start), bucket="tm ctor")
    if case["start"] == "cart":
        a, invf = S.ellipsoid_params(ellname)
        x, y, z = closed_form(lat, lon, case["h_ell"] or 0.0, a, invf)
        start = co.CoordCart(x, y, z, case["nval"])
        if (start.nval is None) != (case["nval"] is None) or (case["nval"] is not None and start.nval != case["nval"]):
            raise Fail("CoordCart does not keep the N value it was given", expected=case["nval"], observed=start.nval,
                       bucket="cart ctor nval")
    o = start
    kinds = {_kind(o)}
    x0 = _xyz_of(start, ellname, prj)
    for step in case["chain"]:
        r = _step(o, step, ellname, prj, case.get("form", "positional"))
        if r is None:
            continue
        o = r
        kinds.add(_kind(o))
        x1 = _xyz_of(o, ellname, prj)
        # an absent ellipsoidal height is converted as 0 m, and cart -> geo computes one: compare positions in Cartesian space
        d = math.sqrt(sum((u - v) ** 2 for u, v in zip(x0, x1)))
        metric("chain_closure_m", d)
        if not d <= 3e-4:
            raise Fail("a chain of conversions moved the position by more than 0.3 mm",
                       expected={"xyz": x0}, observed={"after": step, "object": repr(o), "xyz": x1, "dist_m": d}, bucket="closure")


def check_interleaved(case):
    """Independent conversions on changing ellipsoids, projected -> geographic and geographic -> projected in any order, each
    judged on its own against the exact projection (the harness makes no library call in between): what a coordinate object
    converts to must not depend on which objects were converted before."""
    from ..oracles import tm_exact
    co = repo.mod("geodepy.coord")
    ran = 0
    for k, op in enumerate(case["ops"]):
        ellname, lat, lon = op["ell"], op["lat"], op["lon"]
        if abs(lat) < 1e-9:
            lat = 0.0           # (sub-nanodegree latitudes project to a northing of exactly 0 / 10 000 000: keep the equator itself)
        ell = S.make_ellipsoid(ellname)
        a, invf = S.ellipsoid_params(ellname)
        zone = int((lon + 180.0) // 6.0) + 1
        zone = min(max(zone, 1), 60)
        cm = -177.0 + (zone - 1) * 6.0
        e0, n0, _, _ = tm_exact.project(lat, lon, cm, a, invf, 0.9996, 500000.0, 10000000.0)
        if op["dir"] == "fwd":
            r = co.CoordGeo(lat, lon, op["h"]).tm(ell)
            if r.zone != zone:
                continue            # (on a zone limit: the other admissible zone)
            d = math.hypot(r.east - e0, r.north - n0)
            what = "CoordGeo.tm"
        else:
            r = co.CoordTM(zone, round(e0, 4), round(n0, 4), op["h"], hemi_north=(lat >= 0)).geo(ell, float)
            d = math.hypot((r.lat - lat) * 111000.0, (r.lon - lon) * 111000.0 * math.cos(math.radians(lat)))
            what = "CoordTM.geo"
        if not d <= 3e-4:
            raise Fail("%s gives a position more than 0.3 mm from the exact projection after other coordinate objects were converted" % what,
                       expected={"lat": lat, "lon": lon, "east": e0, "north": n0, "zone": zone},
                       observed={"call": k, "result": repr(r), "dist_m": d, "earlier": [(o["dir"], str(o["ell"])) for o in case["ops"][:k]]},
                       bucket="interleaved " + op["dir"])
        if r.ell_ht != op["h"]:
            raise Fail("%s does not carry the ellipsoidal height" % what, expected=op["h"], observed=r.ell_ht, bucket="interleaved height")
        ran += 1
    if not ran:
        raise Discard()


_iop = st.fixed_dictionaries({"dir": st.sampled_from(["fwd", "inv", "inv"]), "ell": st.sampled_from(["grs80", "ans", "grs80", "ans", "wgs84", "intl24"]),
                              "lat": st.one_of(S.floats(-79.0, 83.0), S.floats(-60.0, -5.0)), "lon": S.floats(-179.9, 179.9),
                              "h": st.one_of(st.none(), st.just(0.0), S.floats(-100.0, 3000.0))})
interleaved_cases = st.lists(_iop, min_size=3, max_size=8).map(lambda ops: {"ops": ops})


# ------------------------------------------------------------------------------------------------ generators

h_s = st.one_of(st.none(), st.just(0.0), S.floats(-100.0, 9000.0), st.sampled_from([10.0, -0.0977, 603.2]), st.integers(-100, 9000).map(float))
step_s = st.one_of(st.sampled_from(["cart", "tm", "tm", "cart"]),
                   st.sampled_from(NOTATIONS).map(lambda n: "geo:" + n), st.sampled_from(NOTATIONS).map(lambda n: "notation:" + n))


@st.composite
def chains(draw):
    prj = draw(st.sampled_from(["utm", "utm", "isg"]))
    if prj == "isg":
        ell = draw(st.sampled_from(["ans", "ans", "grs80"]))
        lat = draw(S.floats(-44.0, -10.0))
        # strictly inside the ten ISG zones: a conversion round trip may move a boundary point by 1e-11 deg into a zone
        # the ISG definition does not list
        lon = draw(st.one_of(S.floats(138.000001, 155.999999), S.floats(158.000001, 159.999999)))
    else:
        ell = draw(st.sampled_from(["grs80", "grs80", "ans"]))
        lat = draw(st.one_of(S.floats(-79.9, 83.9), S.floats(-60.0, -5.0), st.sampled_from([0.0, -37.8, 45.0])))
        lon = draw(st.one_of(S.floats(-179.99, 179.99), st.sampled_from([0.0, 144.96, -0.5])))
    start = draw(st.sampled_from(["geo", "geo", "cart", "tm"]))
    h_ell, h_orth, nval = draw(h_s), draw(h_s), draw(h_s)
    return {"lat": lat, "lon": lon, "ell": ell, "prj": prj, "start": start, "notation": draw(st.sampled_from(NOTATIONS)),
            "h_ell": h_ell, "h_orth": h_orth, "nval": nval, "hnum": draw(st.sampled_from(["float", "float", "int", "npint", "np64"])),
            "chain": draw(st.lists(step_s, min_size=2, max_size=8)),
            "form": draw(st.sampled_from(["positional", "positional", "keyword", "defaults"]))}


_FILL_STEPS = ["cart", "tm", "tm", "cart"] + ["geo:" + n for n in NOTATIONS] + ["notation:" + n for n in NOTATIONS]


def _fill_build(u):
    """World-wide positions (UTM, three quarters) or positions in the ISG zones, a three-step chain, a start kind, a notation and
    heights (absent / zero / value) from the coordinates of a low-discrepancy point."""
    if u[2] < 0.75:
        prj, r = "utm", u[2] / 0.75
        ell = "grs80" if r < 0.67 else "ans"
        lat, lon = -79.9 + 163.8 * u[0], -179.99 + 359.98 * u[1]
    else:
        prj, r = "isg", (u[2] - 0.75) * 4
        ell = "ans" if r < 0.67 else "grs80"
        lat = -44.0 + 34.0 * u[0]
        lon = (138.000001 + 17.999998 * u[1] / 0.9) if u[1] < 0.9 else (158.000001 + 1.999998 * (u[1] - 0.9) * 10)
    s1, r1 = S.u_pick(u[3], _FILL_STEPS)
    s2, r2 = S.u_pick(r1, _FILL_STEPS)
    s3, r3 = S.u_pick(u[4], _FILL_STEPS)
    start, r4 = S.u_pick(r3, ["geo", "geo", "cart", "tm"])
    notation, r5 = S.u_pick(u[5], NOTATIONS)
    hs = []
    for k in range(3):
        hk, r5 = S.u_pick(r5, [None, 0.0, "v"])
        hs.append(-100.0 + 9100.0 * ((u[5] * (7 + 4 * k)) % 1.0) if hk == "v" else hk)
    return {"lat": lat, "lon": lon, "ell": ell, "prj": prj, "start": start, "notation": notation, "h_ell": hs[0], "h_orth": hs[1],
            "nval": hs[2], "chain": [s1, s2, s3], "form": "positional"}


def _nt(case):
    ops = {s.partition(":")[0] for s in case["chain"]}
    zero_or_absent = any(case[k] is None or case[k] == 0 for k in ("h_ell", "h_orth", "nval"))
    return len(ops & {"cart", "tm"}) >= 1 and zero_or_absent


def _classes(case):
    out = ["prj:" + case["prj"], "ell:" + case["ell"], "start:" + case["start"], "notation:" + case["notation"],
           "len:%d" % len(case["chain"]), "call-form:" + case.get("form", "positional")]
    for k in ("h_ell", "h_orth", "nval"):
        out.append("%s:%s" % (k, "absent" if case[k] is None else ("zero" if case[k] == 0 else "value")))
    return out


SUBCHECKS_EXTRA = [
    SubCheck("interleaved_objects", check_interleaved, strategy=interleaved_cases,
             nontrivial=lambda c: len({(str(o["ell"]), o["dir"]) for o in c["ops"]}) >= 3,
             classes=lambda c: ["ellipsoids:%d" % len({str(o["ell"]) for o in c["ops"]}), "calls:%d" % len(c["ops"])],
             quick=600, thorough=40000, shards_quick=3, shards_thorough=12, fresh=(8, 64, 3),
             rule="3..8 independent UTM conversions of coordinate objects in both directions on changing ellipsoids, each judged against "
                  "the exact projection (0.3 mm) with no harness call in between"),
]

SUBCHECKS_FILL = [
    SubCheck("chain_fill", check_chain, enumerate=S.fill(1515, 6, _fill_build, 24000, 480000), nontrivial=_nt, classes=_classes,
             shards_quick=12, shards_thorough=16,
             rule="low-discrepancy fill of latitude x longitude x projection / ellipsoid x three conversion steps x start kind x notation x heights: "
                  "24 000 / 480 000 chains, judged like conversion_chains"),
]

SUBCHECKS = [
    SubCheck("conversion_chains", check_chain, strategy=chains(), nontrivial=_nt, classes=_classes,
             quick=3000, thorough=200000, shards_quick=4, shards_thorough=16,
             rule="every step == functional API for the same ellipsoid / projection / notation (exact); heights preserved geo<->tm, "
                  "N = h - H to/from Cartesian (zero is a value); notation changes keep the position (1e-8\"); closure 0.3 mm at every step"),
]
SUBCHECKS += SUBCHECKS_EXTRA + SUBCHECKS_FILL
