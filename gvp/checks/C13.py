"""C13 MGA94 <-> MGA2020 transformations are mutual inverses and match their definition."""
import math

import numpy as np
from hypothesis import strategies as st

from .. import repo, strategies as S, tmcases as T, trcases as TR
from ..core import SubCheck, Fail, Discard, metric, target, is_seq
from ..oracles import tm_exact, helmert_ref as H, geodesic_exact as G
from .C03 import closed_form

RULE = ("MGA coordinates: zone 46..59, easting 100 000..900 000 m, latitude -60..-5 deg (northing from the exact projection), "
        "points down to 1e-8 deg either side of a zone boundary, height absent / 0 / -100..3000 m, covariance absent / PSD 3x3 (all "
        "ranks) / 3x1 variance column, floats, whole-metre ints, numpy float64; for the algebraic part the whole southern "
        "UTM domain; both directions; non-trivial = more than 0.5 deg from the central meridian")
ASSUMPTIONS = ["a 3x1 variance column is an uncorrelated (diagonal) local covariance: the expected result is the full propagation of "
               "diag(v) (the quantifier lists the column form; the IndexError it used to raise was repaired, DESIGN 11.1)",
               "ground positions in different zones are compared through their geographic coordinates (local metric)",
               "GDA94 and GDA2020 both use GRS80 / UTM (the functions take no ellipsoid argument)",
               "algebraic part: latitude within [-79.99, -0.001] and |longitude| <= 179.99 so that the ~1.8 m datum shift cannot leave "
               "the band, the hemisphere or the longitude range (the API has no hemisphere argument)"]

A_GRS, INVF_GRS = 6378137.0, 298.257222101
GDA = (0.06155, -0.01087, -0.04019, -0.009994, -0.0394924, -0.0327221, -0.0328979)
GDA_SD = (0.0007, 0.0006, 0.0007, 0.00010, 0.000011, 0.000010, 0.000011)


def selftest():
    tm_exact.selftest()
    H.selftest()
    c = repo.mod("geodepy.constants")
    # the harness' copy of the published parameters is only used for the independent cross-check; if the tree's
    # constants differ, C11/C06 report it and the cross-check below reports a difference as a violation of the definition


def _fn(direction):
    tf = repo.mod("geodepy.transform")
    return tf.transform_mga94_to_mga2020 if direction == "94to2020" else tf.transform_mga2020_to_mga94


def _call(direction, case, zone, east, north, h="case", vcv="case"):
    f = _fn(direction)
    hh = case.get("h") if h == "case" else h
    vv = case.get("vcv") if isinstance(vcv, str) and vcv == "case" else vcv
    nk = case.get("num", "float")
    args = [zone, S.as_kind(east, nk), S.as_kind(north, nk)]
    kw = {}
    if hh is not None:
        kw["ell_ht"] = S.as_kind(hh, nk)
    if vv is not None:
        kw["vcv"] = vv if isinstance(vv, np.ndarray) else np.array(vv, dtype=float)     # an ndarray is passed as it is
    form = case.get("form", 0)
    if form:
        # the same request with the documented defaults written out (ell_ht=False, vcv=None) instead of left out, by keyword
        # (form 1) or with everything by position (form 2)
        kw.setdefault("ell_ht", False)
        kw.setdefault("vcv", None)
        if form == 2:
            args += [kw.pop("ell_ht"), kw.pop("vcv")]
    r = f(*args, **kw)
    if not is_seq(r, 5):
        raise Fail("transform_mga* did not return (zone, east, north, height, vcv)", observed=repr(r))
    return r


def _other(direction):
    return "2020to94" if direction == "94to2020" else "94to2020"


def check_roundtrip(case):
    cv = repo.mod("geodepy.convert")
    d1 = case["dir"]
    z, e, n = case["zone"], case["east"], case["north"]
    a = _call(d1, case, z, e, n, vcv=None)
    b = _call(_other(d1), case, a[0], a[1], a[2], h=(a[3] if case.get("h") is not None else None), vcv=None)
    g0 = cv.grid2geo(z, e, n)
    g1 = cv.grid2geo(b[0], b[1], b[2])
    d = G.metric_distance(g0[0], g0[1], g1[0], g1[1], A_GRS, INVF_GRS)
    metric("roundtrip_ground_m", d)
    target(d, "roundtrip_ground")
    if not d <= 3e-4:
        raise Fail("MGA94 <-> MGA2020 there and back does not return the same ground position within 0.3 mm",
                   expected={"zone": z, "east": e, "north": n}, observed={"there": a[:4], "back": b[:4], "dist_m": d})
    if case.get("h") is not None:
        dh = abs(b[3] - case["h"])
        metric("roundtrip_height_m", dh)
        if not dh <= 2e-4 * 1.0005:
            raise Fail("MGA94 <-> MGA2020 there and back does not return the same ellipsoidal height within 0.2 mm",
                       expected=case["h"], observed={"there": a[3], "back": b[3], "diff": dh})


def _stepwise(direction, zone, east, north, h):
    cv = repo.mod("geodepy.convert")
    tf = repo.mod("geodepy.transform")
    c = repo.mod("geodepy.constants")
    lat, lon, psf, conv = cv.grid2geo(zone, east, north)
    x, y, zz = cv.llh2xyz(lat, lon, 0 if h is None else h)
    tr = c.gda94_to_gda2020 if direction == "94to2020" else -c.gda94_to_gda2020
    x2, y2, z2, _ = tf.conform7(x, y, zz, tr)
    lat2, lon2, h2 = cv.xyz2llh(x2, y2, z2)
    hemi, zone2, e2, n2, psf2, conv2 = cv.geo2grid(lat2, lon2)
    return (lat, lon), (lat2, lon2, h2), (zone2, e2, n2)


def check_definition(case):
    d1 = case["dir"]
    z, e, n = case["zone"], case["east"], case["north"]
    h = case.get("h")
    got = _call(d1, case, z, e, n, vcv=None)
    (lat, lon), (lat2, lon2, h2), (zone2, e2, n2) = _stepwise(d1, z, e, n, h)
    want_h = h2 if h is not None else 0
    # same zone; coordinates within one unit of their 0.1 mm resolution plus rounding of an intermediate latitude / longitude
    if got[0] != zone2 or abs(got[1] - e2) > 1.5e-4 or abs(got[2] - n2) > 1.5e-4:
        raise Fail("transform_mga* differs from the stepwise composition grid -> geographic -> Cartesian -> 7-parameter -> "
                   "geographic -> grid", expected=(zone2, e2, n2), observed=got[:3])
    if h is not None and not abs(got[3] - want_h) <= 0.6e-4:
        raise Fail("returned height differs from the stepwise composition's height", expected=want_h, observed=got[3])
    # natural zone of the transformed position
    cm = -177.0 + (got[0] - 1) * 6.0
    if not (1 <= got[0] <= 60 and abs(lon2 - cm) <= 3.0 + 1e-9):
        raise Fail("result is not expressed in the natural zone of the transformed position", expected={"lon": lon2},
                   observed={"zone": got[0], "cm": cm})
    if h is None:
        if got[3] != 0:
            raise Fail("without an input height the returned height is not zero", expected=0, observed=got[3])
        with_zero = _call(d1, case, z, e, n, h=0.0, vcv=None)
        if with_zero[:3] != got[:3]:
            raise Fail("without an input height the horizontal result is not that of the point on the ellipsoid (h = 0)",
                       expected=with_zero[:3], observed=got[:3])
    # independent cross-check of the whole pipeline: exact TM oracle, closed-form Cartesian, reference Helmert
    p = GDA if d1 == "94to2020" else tuple(-v for v in GDA)
    X = closed_form(lat, lon, 0.0 if h is None else h, A_GRS, INVF_GRS)
    X2 = H.apply_float(p, X)
    Xl = closed_form(lat2, lon2, h2, A_GRS, INVF_GRS)
    dx = math.sqrt(sum((u - v) ** 2 for u, v in zip(X2, Xl)))
    metric("pipeline_vs_reference_m", dx)
    if not dx <= 3e-5:
        raise Fail("the transformed geographic position is not the published GDA94/GDA2020 similarity transformation of the input "
                   "(independent reference, 0.03 mm: the Cartesian -> geographic step is good to 0.02 mm by C03)", expected=X2, observed={"lat": lat2, "lon": lon2, "h": h2, "xyz": Xl, "dist_m": dx})
    e0, n0, _, _ = tm_exact.project(lat2, lon2, cm, A_GRS, INVF_GRS, 0.9996, 500000.0, 10000000.0)
    dg = math.hypot(got[1] - e0, got[2] - n0)
    if not dg <= 2e-4:
        raise Fail("returned grid coordinates are not the exact projection of the transformed position (0.2 mm)",
                   expected=(e0, n0), observed={"east": got[1], "north": got[2], "dist_m": dg})


def _rot(lat, lon):
    la, lo = math.radians(lat), math.radians(lon)
    return np.array([[-math.sin(lo), -math.sin(la) * math.cos(lo), math.cos(la) * math.cos(lo)],
                     [math.cos(lo), -math.sin(la) * math.sin(lo), math.cos(la) * math.sin(lo)],
                     [0.0, math.cos(la), math.sin(la)]])


def _expected_cov(d1, z, e, n, h, Vin):
    (lat, lon), (lat2, lon2, h2), _ = _stepwise(d1, z, e, n, h)
    p = GDA if d1 == "94to2020" else tuple(-v for v in GDA)
    R1, R2 = _rot(lat, lon), _rot(lat2, lon2)
    X = closed_form(lat, lon, 0.0 if h is None else h, A_GRS, INVF_GRS)
    Vc = R1 @ Vin @ R1.T
    W = H.propagate(p, GDA_SD, X, Vc)
    return R2.T @ W @ R2


def check_covariance(case):
    d1 = case["dir"]
    z, e, n = case["zone"], case["east"], case["north"]
    h = case.get("h")
    V = np.array(case["vcv"], dtype=float)
    if case.get("column"):
        # a 3x1 column of variances: an uncorrelated (diagonal) local covariance
        V = np.array([[abs(V[0, 0])], [abs(V[1, 1])], [abs(V[2, 2])]])
    Vpassed = V.copy()
    got = _call(d1, case, z, e, n, vcv=V)
    if not np.array_equal(V, Vpassed):
        raise Fail("transform_mga* modified the caller's covariance", expected=Vpassed, observed=V)
    Vin = np.diagflat(V) if case.get("column") else V
    out = got[4]
    if out is None or getattr(out, "shape", None) != (3, 3):
        raise Fail("a local covariance was supplied but no 3x3 local covariance was returned", observed=repr(out))
    without = _call(d1, case, z, e, n, vcv=None)
    if without[:4] != got[:4]:
        raise Fail("supplying a covariance changed the transformed coordinates", expected=without[:4], observed=got[:4])
    want = _expected_cov(d1, z, e, n, h, Vin)
    scale = TR.fro(want) + 1e-300
    rel = TR.fro(out - want) / scale
    metric("cov_rel_err", rel)
    if not rel <= 1e-9:
        raise Fail("returned local covariance is not the input carried through the transformation plus the published parameter "
                   "uncertainties (relative Frobenius > 1e-9)", expected=want, observed={"vcv": out, "rel": rel})
    if not TR.fro(out - out.T) / scale <= 1e-12:
        raise Fail("returned local covariance is not symmetric", observed=out)
    lam = float(np.linalg.eigvalsh((out + out.T) / 2.0).min())
    if not lam >= -1e-12 * scale:
        raise Fail("returned local covariance is not positive semi-definite", observed={"vcv": out, "min_eig": lam})
    # the way back: the tuple the first call returned - position, height and the covariance as the library hands it out (symmetric
    # to rounding only) - goes into the other direction, which must carry THAT covariance through in the same way
    d2 = _other(d1)
    h_back = got[3] if h is not None else None
    back = _call(d2, case, got[0], got[1], got[2], h=h_back, vcv=out)
    if back[4] is None or getattr(back[4], "shape", None) != (3, 3):
        raise Fail("the covariance returned by one direction, fed into the other, returned no 3x3 covariance", observed=repr(back[4]))
    want2 = _expected_cov(d2, got[0], got[1], got[2], h_back, np.array(out, dtype=float))
    rel2 = TR.fro(np.asarray(back[4], dtype=float) - want2) / (TR.fro(want2) + 1e-300)
    metric("chained_cov_rel_err", rel2)
    if not rel2 <= 1e-9:
        raise Fail("a covariance returned by transform_mga* and fed into the other direction is not carried through the transformation "
                   "(relative Frobenius > 1e-9)", expected=want2, observed={"vcv": back[4], "rel": rel2}, bucket="chained covariance")


# ------------------------------------------------------------------------------------------------ generators

_unit = S.floats(0.0, 1.0)


@st.composite
def mga_cases(draw, with_vcv=False):
    zone = draw(st.integers(46, 59))
    lat = draw(st.one_of(S.floats(-60.0, -5.0), S.floats(-60.0, -5.0), st.sampled_from([-60.0, -5.0, -23.6701, -37.8])))
    sel = draw(st.integers(0, 4))
    if sel == 0:      # near the zone boundary: 3 +- 0.6 deg from the central meridian
        dl = (3.0 + (draw(_unit) * 2 - 1) * 0.6) * (1 if draw(st.booleans()) else -1)
    elif sel == 4:    # within centimetres .. tens of metres of the zone boundary, either side of it (the datum shift is ~1.8 m)
        off = draw(S.log_uniform(1e-8, 3e-4)) * (1 if draw(st.booleans()) else -1)
        dl = (3.0 + off) * (1 if draw(st.booleans()) else -1)
    else:
        dl = (draw(_unit) * 2 - 1) * 3.6
    cm = -177.0 + (zone - 1) * 6.0
    e, n, _, _ = tm_exact.project(lat, cm + dl, cm, A_GRS, INVF_GRS, 0.9996, 500000.0, 10000000.0)
    e = min(max(round(e, 4), 100000.0), 900000.0)
    n = round(n, 4)
    hsel = draw(st.integers(0, 3))
    h = None if hsel == 0 else (0.0 if hsel == 1 else draw(st.one_of(S.floats(-100.0, 3000.0), st.sampled_from([-100.0, 3000.0, 0.0977, -0.0977]))))
    c = {"dir": draw(st.sampled_from(["94to2020", "2020to94"])), "zone": zone, "east": e, "north": n, "h": h, "num": draw(S.num_kind),
         "form": draw(st.sampled_from([0, 0, 1, 2]))}
    if c["num"] == "int":
        c["east"], c["north"] = float(round(e)), float(round(n))      # whole metres, as a user would type them
        if h is not None:
            c["h"] = float(round(h))
    if with_vcv:
        c["vcv"] = draw(TR.psd3())
        c["column"] = draw(st.integers(0, 3)) == 0
    return c


@st.composite
def utm_south_cases(draw):
    g = draw(T.grid_cases(prj_strategy=st.just("utm"), ell_strategy=st.just("grs80")))
    north = g["north"] if g["hemi"] == "south" else 10000000.0 - g["north"]
    hsel = draw(st.integers(0, 2))
    h = None if hsel == 0 else (0.0 if hsel == 1 else draw(S.floats(-100.0, 3000.0)))
    return {"dir": draw(st.sampled_from(["94to2020", "2020to94"])), "zone": g["zone"], "east": g["east"], "north": north, "h": h}


def check_definition_wide(case):
    cv = repo.mod("geodepy.convert")
    T.grid_range_or_discard(case["east"], case["north"])
    lat, lon = T.oracle_inverse(dict(case, prj="utm", ell="grs80"), hemi="south")      # (domain decided without the library)
    cm = -177.0 + (case["zone"] - 1) * 6.0
    if not (-79.99 <= lat <= -0.001) or abs(lon) > 179.99 or abs(lon - cm) > 30.0:
        raise Discard()
    check_definition(case)


def _nt(case):
    return abs(case["east"] - 500000.0) > 45000.0


def _classes(case):
    out = ["dir:" + case["dir"], "h:" + ("absent" if case.get("h") is None else ("zero" if case["h"] == 0 else "value"))]
    x = abs(case["east"] - 500000.0)
    out.append("near-zone-edge" if x > 2.3e5 else "in-zone")
    if "vcv" in case:
        V = np.array(case["vcv"])
        out.append("vcv-rank:%d" % (int(np.linalg.matrix_rank(V)) if V.any() else 0))
        out.append("vcv:3x1-column" if case.get("column") else "vcv:3x3")
    return out


def _sweep_lines(rnd):
    """Eastings (100 000 .. 900 000 m) along a seeded northing and northings (latitude -60 .. -5) along a seeded easting, one line
    of each per direction; zone 46..59 and height (absent / value) fixed per line by the seed."""
    out = []
    for d in ("94to2020", "2020to94"):
        zone = rnd.randrange(46, 60)
        h = rnd.choice([None, rnd.uniform(-100.0, 3000.0)])
        n0 = rnd.uniform(3.4e6, 9.4e6)
        e0 = rnd.uniform(200000.0, 800000.0)
        base = {"dir": d, "zone": zone, "h": h, "num": "float", "form": (zone + (0 if h is None else 1)) % 3}
        # (eastings stay where the latitude band of the statement maps to: at N = n0 every E in 100..900 km is fine)
        out.append((1.0, lambda f, b=base, n=n0: dict(b, east=round(100000.0 + 800000.0 * f, 4), north=round(n, 4))))
        out.append((1.0, lambda f, b=base, e=e0: dict(b, east=round(e, 4), north=round(3.4e6 + 6.0e6 * f, 4))))
    return out


def _fill_build(u):
    zone, r = S.u_pick(u[0], list(range(46, 60)))
    d = "94to2020" if r < 0.5 else "2020to94"
    h = None if u[3] < 0.2 else -100.0 + 3100.0 * (u[3] - 0.2) / 0.8
    return {"dir": d, "zone": zone, "east": round(100000.0 + 800000.0 * u[1], 4), "north": round(3.4e6 + 6.0e6 * u[2], 4), "h": h, "num": "float"}


G_ALL = [["dir"], ["zone", "east", "north"], ["h"]]

SUBCHECKS = [
    SubCheck("there_and_back", check_roundtrip, strategy=mga_cases(), nontrivial=_nt, classes=_classes,
             quick=2000, thorough=150000, shards_quick=4, shards_thorough=16, seq_groups=G_ALL,
             rule="94 -> 2020 -> 94 and 2020 -> 94 -> 2020: ground position within 0.3 mm, height within 0.2 mm"),
    SubCheck("equals_definition", check_definition, strategy=mga_cases(), nontrivial=_nt, classes=_classes,
             quick=2000, thorough=150000, shards_quick=4, shards_thorough=16, seq_groups=G_ALL,
             fresh=(8, 64, 3), rule="each direction == stepwise composition with the library's own steps (exact), natural zone, no-height rule; "
                  "and == independent reference pipeline (exact TM, closed-form Cartesian, reference Helmert) within 0.03 / 0.2 mm"),
    SubCheck("definition_axis_sweeps", check_definition, enumerate=S.sweeps(1313, _sweep_lines, 6000, 120000), nontrivial=_nt, classes=_classes,
             shards_quick=12, shards_thorough=16,
             rule="stratified sweeps: eastings along a northing and northings along an easting (6 000 / 120 000 lattice points per line, 4 lines, seeded)"),
    SubCheck("definition_fill", check_definition, enumerate=S.fill(1323, 4, _fill_build, 24000, 480000), nontrivial=_nt, classes=_classes,
             shards_quick=12, shards_thorough=16,
             rule="low-discrepancy fill of zone / direction x easting x northing x height (absent / -100..3000 m): 24 000 / 480 000 points"),
    SubCheck("there_and_back_fill", check_roundtrip, enumerate=S.fill(1324, 4, _fill_build, 12000, 240000), nontrivial=_nt, classes=_classes,
             shards_quick=12, shards_thorough=16, rule="the same fill (another seeded point set) through the round trip"),
    SubCheck("equals_definition_whole_utm", check_definition_wide, strategy=utm_south_cases(), nontrivial=_nt, classes=_classes,
             quick=1500, thorough=100000, shards_quick=3, shards_thorough=12,
             rule="the same on the whole southern UTM domain of C02 (zones 1..60, |lon - CM| <= 30 deg)"),
    SubCheck("covariance", check_covariance, strategy=mga_cases(with_vcv=True), nontrivial=_nt, classes=_classes,
             quick=1500, thorough=100000, shards_quick=3, shards_thorough=12, seq_groups=G_ALL + [["vcv"]],
             fresh=(8, 64, 3), rule="local covariance out = R2^T (S R1 V R1^T S^T + J Sigma J^T) R2 from the harness' own matrices (1e-9), symmetric, PSD"),
]
