"""C16 Local-frame rotations preserve geometry and covariance; error measures match."""
import math

import numpy as np
from hypothesis import strategies as st

from .. import repo, strategies as S, trcases as TR
from ..core import SubCheck, Fail, Discard, metric, HarnessError, is_seq

RULE = ("lat in [-90, 90], lon in [-360, 360] incl. poles and cardinal meridians; vectors up to 1e7 m; symmetric PSD matrices "
        "(full rank, rank 2, rank 1, diagonal, zero, condition number up to 1e8), 3x1 variance columns, arbitrary (non-symmetric) "
        "cross-covariance blocks, fully correlated station pairs, tied variances; matrices held as fresh arrays, views of a larger "
        "array, Fortran order, int64 / float32; angle objects for both vector conversions; all integer degrees of freedom -5..200 (complete); non-trivial = off the poles/equator/cardinal "
        "meridians with a non-diagonal matrix (rotations), any dof (table)")
ASSUMPTIONS = ["latitude / longitude are also passed as Python ints and numpy float64 / int32 scalars (double-precision results required); numpy float32 scalars are NOT generated: under numpy semantics single-precision inputs may give single-precision results, which is the caller's choice (see gvp/strategies.py) - seeded change C16g lives exactly there and is recorded as not claimed",
               "closed forms: east = (-sin lon, cos lon, 0), north = (-sin lat cos lon, -sin lat sin lon, cos lat), "
               "up = (cos lat cos lon, cos lat sin lon, sin lat) (the ellipsoid normal)",
               "Student-t quantiles from scipy.stats.t.ppf, cross-checked at start-up by an in-harness bisection on the regularised "
               "incomplete beta function",
               "eigenvalue comparisons use 1e-12 x largest eigenvalue; error-ellipse orientation is compared through the Rayleigh "
               "quotient of the returned direction (well defined modulo 180 deg, skipped when the axes are equal to 1e-9 relative)"]


def _frame(lat, lon):
    la, lo = math.radians(lat), math.radians(lon)
    e = np.array([-math.sin(lo), math.cos(lo), 0.0])
    n = np.array([-math.sin(la) * math.cos(lo), -math.sin(la) * math.sin(lo), math.cos(la)])
    u = np.array([math.cos(la) * math.cos(lo), math.cos(la) * math.sin(lo), math.sin(la)])
    return e, n, u


def _betacf(a, b, x):
    """Continued fraction for the incomplete beta function (modified Lentz), as in Numerical Recipes."""
    tiny = 1e-300
    qab, qap, qam = a + b, a + 1.0, a - 1.0
    c = 1.0
    d = 1.0 - qab * x / qap
    d = tiny if abs(d) < tiny else d
    d = 1.0 / d
    h = d
    for m in range(1, 1000):
        m2 = 2 * m
        aa = m * (b - m) * x / ((qam + m2) * (a + m2))
        d = 1.0 + aa * d
        d = tiny if abs(d) < tiny else d
        c = 1.0 + aa / c
        c = tiny if abs(c) < tiny else c
        d = 1.0 / d
        h *= d * c
        aa = -(a + m) * (qab + m) * x / ((a + m2) * (qap + m2))
        d = 1.0 + aa * d
        d = tiny if abs(d) < tiny else d
        c = 1.0 + aa / c
        c = tiny if abs(c) < tiny else c
        d = 1.0 / d
        de = d * c
        h *= de
        if abs(de - 1.0) < 1e-16:
            break
    return h


def _betainc(a, b, x):
    """Regularised incomplete beta I_x(a, b), for the self-test only."""
    if x <= 0:
        return 0.0
    if x >= 1:
        return 1.0
    bt = math.exp(math.lgamma(a + b) - math.lgamma(a) - math.lgamma(b) + a * math.log(x) + b * math.log(1.0 - x))
    if x < (a + 1.0) / (a + b + 2.0):
        return bt * _betacf(a, b, x) / a
    return 1.0 - bt * _betacf(b, a, 1.0 - x) / b


def _t_cdf(t, nu):
    x = nu / (nu + t * t)
    return 1.0 - 0.5 * _betainc(nu / 2.0, 0.5, x)


def _t_quantile(p, nu):
    lo, hi = 0.0, 1000.0
    for _ in range(200):
        mid = (lo + hi) / 2
        if _t_cdf(mid, nu) < p:
            lo = mid
        else:
            hi = mid
    return (lo + hi) / 2


def selftest():
    from scipy import stats
    for nu in (1, 2, 5, 30, 120):
        a = float(stats.t.ppf(0.975, nu))
        b = _t_quantile(0.975, nu)
        if abs(a - b) > 1e-7 * max(1.0, a):
            raise HarnessError("t-quantile self-test failed for nu=%d: scipy %r vs bisection %r" % (nu, a, b))


# ------------------------------------------------------------------------------------------------ checks

def _scalar(x, kind):
    """x as a numpy / Python scalar of the given kind where that kind holds x exactly (else x itself)."""
    if kind == "np32" and float(np.float32(x)) == float(x):
        return np.float32(x)
    if kind == "npint" and float(x).is_integer():
        return np.int32(int(x))
    return S.as_kind(x, kind if kind in ("int", "np64") else "float")


def check_frame(case):
    stt = repo.mod("geodepy.statistics")
    gd = repo.mod("geodepy.geodesy")
    lat, lon = case["lat"], case["lon"]
    ak = case.get("anum", "float")
    # latitude / longitude as any real scalar (Python int, numpy float64 / float32 / int32): each denotes the real number it
    # holds, and the frame of THAT number is required at double precision (the library converts with math.radians)
    R = np.asarray(stt.rotation_matrix(_scalar(lat, ak), _scalar(lon, ak)), dtype=float)
    if R.shape != (3, 3):
        raise Fail("rotation_matrix did not return a 3x3 array", observed=repr(R))
    e, n, u = _frame(lat, lon)
    want = np.column_stack([e, n, u])
    d = float(np.abs(R - want).max())
    metric("frame_err", d)
    if not d <= 4e-15:
        raise Fail("local frame columns are not (east, north, ellipsoid normal)", expected=want, observed=R)
    if not float(np.abs(R.T @ R - np.eye(3)).max()) <= 4e-15:
        raise Fail("local frame is not orthonormal", observed=R.T @ R)
    if not abs(float(np.linalg.det(R)) - 1.0) <= 8e-15:
        raise Fail("local frame is not right-handed (det != +1)", observed=float(np.linalg.det(R)))
    v = np.array(case["v"], dtype=float)
    nv = float(np.linalg.norm(v))
    nk = case.get("num", "float")
    x = gd.enu2xyz(S.as_kind(lat, nk), S.as_kind(lon, nk), S.as_kind(float(v[0]), nk), S.as_kind(float(v[1]), nk), S.as_kind(float(v[2]), nk))
    wantx = v[0] * e + v[1] * n + v[2] * u
    if not float(np.abs(np.array(x, dtype=float) - wantx).max()) <= 4e-15 * nv + 1e-300:
        raise Fail("enu2xyz is not east*e + north*n + up*u", expected=wantx, observed=x)
    back = gd.xyz2enu(lat, lon, x[0], x[1], x[2])
    if not float(np.abs(np.array(back, dtype=float) - v).max()) <= 4e-15 * nv + 1e-300:
        raise Fail("xyz2enu(enu2xyz(v)) does not return v", expected=v, observed=back)
    if not abs(float(np.linalg.norm(np.array(x, dtype=float))) - nv) <= 4e-15 * nv + 1e-300:
        raise Fail("local -> Cartesian vector conversion does not preserve length", expected=nv,
                   observed=float(np.linalg.norm(np.array(x, dtype=float))))
    loc = gd.xyz2enu(lat, lon, v[0], v[1], v[2])
    wantl = np.array([e @ v, n @ v, u @ v])
    if not float(np.abs(np.array(loc, dtype=float) - wantl).max()) <= 4e-15 * nv + 1e-300:
        raise Fail("xyz2enu is not (e.v, n.v, u.v)", expected=wantl, observed=loc)
    if case.get("kind", "float") != "float":
        lo_, la_ = S.angle_obj(case["kind"], lon), S.angle_obj(case["kind"], lat)
        b1 = gd.xyz2enu(la_, lo_, v[0], v[1], v[2])
        b2 = gd.xyz2enu(S.obj_dec(la_), S.obj_dec(lo_), v[0], v[1], v[2])
        if not float(np.abs(np.array(b1, dtype=float) - np.array(b2, dtype=float)).max()) <= 4e-15 * nv + 1e-300:
            raise Fail("xyz2enu with angle objects differs from the call with their decimal values", expected=b2, observed=b1)
        # the position by keyword, the vector by position (and everything by keyword)
        for form, k1 in (("lat / lon by keyword", gd.xyz2enu(x=v[0], y=v[1], z=v[2], lat=la_, lon=lo_)),
                         ("lon before lat by keyword", gd.xyz2enu(lon=lo_, lat=la_, x=v[0], y=v[1], z=v[2]))):
            if not float(np.abs(np.array(k1, dtype=float) - np.array(b2, dtype=float)).max()) <= 4e-15 * nv + 1e-300:
                raise Fail("xyz2enu with angle objects given %s differs from the positional call with their decimal values" % form,
                           expected=b2, observed=k1, bucket="xyz2enu call form")
        a1 = gd.enu2xyz(la_, lo_, v[0], v[1], v[2])
        a2 = gd.enu2xyz(S.obj_dec(la_), S.obj_dec(lo_), v[0], v[1], v[2])
        k2 = gd.enu2xyz(lat=la_, lon=lo_, east=v[0], north=v[1], up=v[2])
        if not float(np.abs(np.array(k2, dtype=float) - np.array(a2, dtype=float)).max()) <= 4e-15 * nv + 1e-300:
            raise Fail("enu2xyz with angle objects given by keyword differs from the positional call with their decimal values",
                       expected=a2, observed=k2, bucket="enu2xyz call form")
        if not float(np.abs(np.array(a1, dtype=float) - np.array(a2, dtype=float)).max()) <= 4e-15 * nv + 1e-300:
            raise Fail("enu2xyz with angle objects differs from the call with their decimal values", expected=a2, observed=a1)


def _eig(M):
    return np.linalg.eigvalsh((M + M.T) / 2.0)


def _held(M, how):
    """The matrix M as a caller may hold it: a fresh C-ordered float64 array, a view into a larger array (a station's block of a
    network VCV: not contiguous), Fortran order, or an integer / single-precision array where those hold the values exactly."""
    M = np.array(M, dtype=float)
    if how == "view":
        big = np.full((7, 8), 7.25)
        big[2:5, 3:6] = M
        return big[2:5, 3:6], big
    if how == "fortran":
        return np.asfortranarray(M), None
    if how in ("int", "f32"):
        B = np.rint(M / (np.abs(M).max() or 1.0) * 3.0)
        if how == "int":
            return (B @ B.T).astype(np.int64), None
        return ((B @ B.T) / 64.0).astype(np.float32), None
    return M, None


def check_vcv(case):
    stt = repo.mod("geodepy.statistics")
    lat, lon = case["lat"], case["lon"]
    Vh, big = _held(case["vcv"], case.get("held", "plain"))
    big_before = None if big is None else big.copy()
    V = np.array(Vh, dtype=float)           # the values the caller's array holds
    Vin = V.copy()
    Vcall, V = Vh, V
    e, n, u = _frame(lat, lon)
    R = np.column_stack([e, n, u])
    scale = TR.fro(V)
    ak = case.get("anum", "float")
    for name, fn, want in (("vcv_cart2local", stt.vcv_cart2local, R.T @ V @ R), ("vcv_local2cart", stt.vcv_local2cart, R @ V @ R.T)):
        out = fn(Vcall, _scalar(lat, ak), _scalar(lon, ak))
        if not np.array_equal(np.array(Vcall, dtype=float), Vin) or (big is not None and not np.array_equal(big, big_before)):
            raise Fail("%s modified the caller's matrix" % name, expected=Vin, observed=np.array(Vcall, dtype=float))
        if getattr(out, "shape", None) != (3, 3):
            raise Fail("%s did not return a 3x3 matrix" % name, observed=repr(out))
        out = np.array(out, dtype=float)
        if scale == 0:
            if np.abs(out).max() != 0:
                raise Fail("%s of the zero matrix is not zero" % name, observed=out)
            continue
        rel = TR.fro(out - want) / scale
        metric("vcv_rel_err", rel)
        if not rel <= 1e-14:
            raise Fail("%s is not R^T V R / R V R^T with the local frame" % name, expected=want, observed={"vcv": out, "rel": rel})
        if not TR.fro(out - out.T) / scale <= 1e-15 * 4:
            raise Fail("%s does not preserve symmetry" % name, observed=out)
        lam0, lam1 = _eig(V), _eig(out)
        if not float(np.abs(lam0 - lam1).max()) <= 1e-12 * max(abs(lam0).max(), 1e-300):
            raise Fail("%s does not preserve the eigenvalues" % name, expected=lam0, observed=lam1)
        if not abs(np.trace(out) - np.trace(V)) <= 1e-12 * max(abs(np.trace(V)), 1e-300):
            raise Fail("%s does not preserve the trace" % name, expected=float(np.trace(V)), observed=float(np.trace(out)))
        other = stt.vcv_local2cart if name == "vcv_cart2local" else stt.vcv_cart2local
        back = other(out, lat, lon)
        if not TR.fro(back - V) / scale <= 1e-12:
            raise Fail("rotating a covariance to the other frame and back does not return the original", expected=V, observed=back)
        # ... and the matrix that came back (the original up to rounding: a zero variance may have become +-1e-20) is rotated again
        again = fn(back, lat, lon)
        if getattr(again, "shape", None) != (3, 3) or not TR.fro(np.array(again, dtype=float) - want) / scale <= 1e-12:
            raise Fail("%s of a matrix that has been to the other frame and back is not R V R^T of it" % name, expected=want,
                       observed=again, bucket="rotated, rotated back, rotated again")


def check_column(case):
    stt = repo.mod("geodepy.statistics")
    lat, lon = case["lat"], case["lon"]
    col = np.array(case["col"], dtype=float).reshape(3, 1)
    cin = col.copy()
    e, n, u = _frame(lat, lon)
    R = np.column_stack([e, n, u])
    D = np.diag(col[:, 0])
    scale = float(np.abs(col).max())
    for name, fn, want in (("vcv_cart2local", stt.vcv_cart2local, np.diag(R.T @ D @ R)), ("vcv_local2cart", stt.vcv_local2cart, np.diag(R @ D @ R.T))):
        out = fn(col, lat, lon)
        if not np.array_equal(col, cin):
            raise Fail("%s modified the caller's column" % name, expected=cin, observed=col)
        if getattr(out, "shape", None) != (3, 1):
            raise Fail("%s of a 3x1 variance column did not return a 3x1 column" % name, observed=repr(out))
        if not float(np.abs(out[:, 0] - want).max()) <= 1e-14 * scale + 1e-300:
            raise Fail("%s of a 3x1 variance column is not the diagonal of the rotated diagonal matrix" % name,
                       expected=want, observed=out[:, 0])


def check_ellipse(case):
    stt = repo.mod("geodepy.statistics")
    V = np.array(case["vcv"], dtype=float)
    H = V[:2, :2]
    lam = np.linalg.eigvalsh((H + H.T) / 2.0)
    lmax = float(max(abs(lam).max(), 1e-300))
    a, b, ori = stt.error_ellipse(V)
    if not (a >= b >= 0):
        raise Fail("error ellipse semi-axes are not major >= minor >= 0", observed=(a, b, ori))
    if not (abs(a * a - lam[1]) <= 1e-12 * lmax and abs(b * b - max(lam[0], 0.0)) <= 1e-12 * lmax):
        raise Fail("error ellipse semi-axes are not the square roots of the eigenvalues of the horizontal 2x2 block",
                   expected={"a2": float(lam[1]), "b2": float(lam[0])}, observed={"a": a, "b": b})
    if lam[1] - lam[0] > 1e-9 * lmax:
        th = math.radians(ori)
        d = np.array([math.sin(th), math.cos(th)])       # bearing: clockwise from north (second axis)
        q = float(d @ H @ d)
        metric("ellipse_rayleigh_rel", abs(q - lam[1]) / lmax)
        if not abs(q - lam[1]) <= 1e-9 * lmax:
            raise Fail("error ellipse orientation is not the bearing of the major axis", expected={"rayleigh": float(lam[1])},
                       observed={"orientation": ori, "rayleigh": q})


def check_relative(case):
    stt = repo.mod("geodepy.statistics")
    lat, lon = case["lat"], case["lon"]
    v1, v2, c12 = (np.array(case[k], dtype=float) for k in ("var1", "var2", "cov12"))
    rep = case.get("rep", "float")
    a1, a2, a12 = v1, v2, c12
    if rep != "float":
        # the same request with whole numbers held in integer arrays (variances in mm^2, say): the blocks are scaled so that their
        # largest entry is about 1e6 and rounded; the oracle then works on exactly those whole numbers
        big = max(float(np.max(np.abs(m))) for m in (v1, v2, c12))
        if not big > 0:
            raise Discard()
        v1, v2, c12 = (np.rint(m * (1e6 / big)) for m in (v1, v2, c12))
        dt = np.int32 if rep == "int32" else np.int64
        a1 = v1.astype(dt)
        a2, a12 = (v2, c12) if rep == "int_var1" else (v2.astype(dt), c12.astype(dt))
    got = stt.relative_error(lat, lon, a1, a2, a12)
    if not is_seq(got, 4):
        raise Fail("relative_error did not return (a, b, orientation, up)", observed=repr(got))
    e, n, u = _frame(lat, lon)
    R = np.column_stack([e, n, u])
    rel = R.T @ (v1 + v2 - c12 - c12.T) @ R
    H = rel[:2, :2]
    lam = np.linalg.eigvalsh((H + H.T) / 2.0)
    scale = float(max(TR.fro(v1), TR.fro(v2), TR.fro(c12), 1e-300))
    if lam[0] < -1e-12 * scale or rel[2, 2] < -1e-12 * scale:
        raise Discard()    # not a valid joint covariance: the relative variance is not PSD
    a, b, ori, up = got
    if not (abs(a * a - lam[1]) <= 1e-10 * scale and abs(b * b - max(lam[0], 0.0)) <= 1e-10 * scale):
        raise Fail("relative error ellipse is not the ellipse of var1 + var2 - cov12 - cov12^T in the local frame",
                   expected={"a2": float(lam[1]), "b2": float(lam[0])}, observed={"a": a, "b": b})
    if not abs(up * up - max(rel[2, 2], 0.0)) <= 1e-10 * scale:
        raise Fail("relative up error is not sqrt of the up variance of var1 + var2 - cov12 - cov12^T", expected=float(rel[2, 2]),
                   observed=up)
    if lam[1] - lam[0] > 1e-7 * scale:
        th = math.radians(ori)
        d = np.array([math.sin(th), math.cos(th)])
        q = float(d @ H @ d)
        if not abs(q - lam[1]) <= 1e-7 * scale:
            raise Fail("relative error ellipse orientation is not the bearing of the major axis", expected=float(lam[1]),
                       observed={"orientation": ori, "rayleigh": q})


def check_table(case):
    from scipy import stats
    stt = repo.mod("geodepy.statistics")
    dof = case["dof"]
    got = stt.k_val95(dof)
    if dof < 1:
        want = round(float(stats.t.ppf(0.975, 1)), 4)      # table[0] is given to 4 decimals (12.7062)
        if abs(got - float(stats.t.ppf(0.975, 1))) > 5.1e-5:
            raise Fail("k_val95 below 1 degree of freedom is not the value for 1", expected=want, observed=got)
    elif dof > 120:
        if got != 1.96:
            raise Fail("k_val95 above 120 degrees of freedom is not 1.96", expected=1.96, observed=got)
    else:
        want = float(stats.t.ppf(0.975, dof))
        if not abs(got - want) <= 0.5e-5 + 1e-9:
            raise Fail("tabulated 95 % coverage factor is not the two-sided Student-t quantile to five decimals",
                       expected=round(want, 5), observed={"dof": dof, "k": got})


def enumerate_table(tier, seed, shard, nshards):
    for i, dof in enumerate(range(-5, 201)):
        if i % nshards == shard:
            yield {"dof": dof}


# ------------------------------------------------------------------------------------------------ generators

lat_s = st.one_of(S.floats(-90, 90), S.floats(-90, 90), st.sampled_from([0.0, 90.0, -90.0, 45.0, -45.0, 89.999999, 1e-9]))
lon_s = st.one_of(S.floats(-360, 360), S.floats(-360, 360), st.sampled_from([0.0, 90.0, -90.0, 180.0, -180.0, 270.0, 360.0, -360.0]))
vec_s = st.lists(st.one_of(S.floats(-1e7, 1e7), S.floats(-10, 10), st.sampled_from([0.0, 1.0, -1.0, 1e7])).map(
    lambda x: 0.0 if abs(x) < 1e-100 else x), min_size=3, max_size=3)     # components below 1e-100 m underflow when squared


@st.composite
def psd_cond(draw):
    """PSD with prescribed eigenvalues (condition number up to 1e8) in a random orthonormal basis."""
    base = draw(TR.psd3())
    pick = draw(st.integers(0, 3))
    if pick == 0:
        return base
    if pick == 3:
        # singular along an axis of the frame the matrix is given in: a 2-D station (no up variance), a bench mark (height
        # variance only), a diagonal matrix with a zero entry, a correlated horizontal block with zero up row / column
        s = draw(S.log_uniform(1e-8, 1.0))
        a, b, r = draw(S.floats(0.1, 1.0)), draw(S.floats(0.1, 1.0)), draw(S.floats(-0.95, 0.95))
        kind = draw(st.integers(0, 3))
        if kind == 0:
            V = np.diag([a, b, 0.0])
        elif kind == 1:
            V = np.diag([0.0, 0.0, a])
        elif kind == 2:
            V = np.diag(np.roll([a, 0.0, b], draw(st.integers(0, 2))))
        else:
            c = r * math.sqrt(a * b)
            V = np.array([[a, c, 0.0], [c, b, 0.0], [0.0, 0.0, 0.0]])
        return (V * s).tolist()
    A = np.array([[TR.unit(draw) for _ in range(3)] for _ in range(3)]) + 1e-3 * np.eye(3)
    Q, _ = np.linalg.qr(A)
    k = draw(S.log_uniform(1.0, 1e8))
    lam = [1.0, draw(S.floats(0.0, 1.0)), 1.0 / k]
    s = draw(S.log_uniform(1e-8, 1.0))
    V = (Q @ np.diag(lam) @ Q.T) * s
    return ((V + V.T) / 2).tolist()


any33 = st.lists(st.lists(S.floats(-1.0, 1.0), min_size=3, max_size=3), min_size=3, max_size=3)


@st.composite
def relative_cases(draw):
    # a valid joint 6x6 covariance [[var1, cov12], [cov12^T, var2]] = B B^T so that the relative variance is PSD
    ncol = draw(st.sampled_from([6, 6, 3, 2]))
    B = np.array([[TR.unit(draw) for _ in range(ncol)] for _ in range(6)])
    s = draw(S.log_uniform(1e-8, 1.0))
    J = (B @ B.T) * s
    if draw(st.booleans()):
        # stations of different quality (a constrained station next to a free one): standard deviations scaled per station
        d1, d2 = draw(S.log_uniform(1e-6, 1.0)), draw(S.log_uniform(1e-6, 1.0))
        D = np.diag([d1] * 3 + [d2] * 3)
        J = D @ J @ D
    if draw(st.integers(0, 4)) == 0:
        # structured: both stations with the same tied horizontal block at a pole-free cardinal position, no cross covariance
        T3 = np.array(draw(tie_matrices()))
        return {"lat": draw(st.sampled_from([0.0, 90.0, -90.0, 45.0])), "lon": draw(st.sampled_from([0.0, 90.0, 180.0, -90.0])),
                "var1": T3.tolist(), "var2": (T3 * draw(st.sampled_from([0.0, 1.0, 2.0]))).tolist(), "cov12": [[0.0] * 3] * 3}
    lat, lon = draw(lat_s), draw(lon_s)
    if draw(st.integers(0, 5)) == 0:
        # fully correlated stations (rank-1 joint covariance) whose difference lies along one local axis: the relative
        # covariance is singular, and its up (or a horizontal) variance is exactly zero up to rounding of either sign
        e, n, u = _frame(lat, lon)
        b2 = np.array([TR.unit(draw) for _ in range(3)]) * 0.02
        axis = draw(st.sampled_from(["e", "n", "en", "u", "same"]))
        d = {"e": e, "n": n, "en": e * TR.unit(draw) + n * TR.unit(draw), "u": u, "same": 0.0 * e}[axis]
        b1 = b2 + 0.01 * draw(S.floats(0.1, 1.0)) * d
        sc = draw(st.sampled_from([1.0, 1e-2, 1e-4]))
        return {"lat": lat, "lon": lon, "var1": (np.outer(b1, b1) * sc).tolist(), "var2": (np.outer(b2, b2) * sc).tolist(),
                "cov12": (np.outer(b1, b2) * sc).tolist(), "corr": axis}
    return {"lat": lat, "lon": lon, "var1": J[:3, :3].tolist(), "var2": J[3:, 3:].tolist(), "cov12": J[:3, 3:].tolist(),
            "rep": draw(st.sampled_from(["float", "float", "float", "float", "int", "int32", "int_var1"]))}


def _nt_rot(case):
    lat, lon = case["lat"], case["lon"]
    if abs(lat) in (0.0, 90.0) or lon % 90.0 == 0.0:
        return False
    V = case.get("vcv")
    if V is not None:
        return any(V[i][j] != 0 for i in range(3) for j in range(3) if i != j)
    return True


def _cls(case):
    out = []
    if "lat" in case:
        out.append("pole" if abs(case["lat"]) == 90 else ("equator" if case["lat"] == 0 else "lat:general"))
        out.append("cardinal-meridian" if case["lon"] % 90.0 == 0 else "lon:general")
    for k in ("vcv",):
        if k in case:
            V = np.array(case[k])
            out.append("rank:%d" % (int(np.linalg.matrix_rank(V)) if V.any() else 0))
    if "held" in case:
        out.append("array:" + case["held"])
    return out


_quarters = lambda s: st.one_of(s, s, s.map(lambda v: float(round(v))), s.map(lambda v: round(v * 4) / 4.0))      # noqa
frame_cases = st.fixed_dictionaries({"lat": _quarters(lat_s), "lon": _quarters(lon_s),
                                     "anum": st.sampled_from(["float", "float", "np64", "int", "npint"]),
                                     "v": st.one_of(vec_s, vec_s.map(lambda p: [float(round(c)) for c in p])), "kind": S.angle_kind,
                                     "num": S.num_kind})
vcv_cases = st.fixed_dictionaries({"lat": _quarters(lat_s), "lon": _quarters(lon_s), "vcv": psd_cond(),
                                   "anum": st.sampled_from(["float", "float", "float", "np64", "npint", "int"]),
                                   "held": st.sampled_from(["plain", "plain", "plain", "view", "fortran", "int", "f32"])})
col_cases = st.fixed_dictionaries({"lat": lat_s, "lon": lon_s, "col": st.lists(st.one_of(S.floats(0.0, 1.0), S.log_uniform(1e-10, 10.0)),
                                                                               min_size=3, max_size=3)})
@st.composite
def tie_matrices(draw):
    """Horizontal blocks with special structure: equal variances with a covariance of either sign, zero covariance with either
    ordering of the variances, rank-1 along a cardinal / diagonal direction."""
    a = draw(st.sampled_from([1.0, 0.25, 2.5e-5, 4.0])) * draw(st.sampled_from([1.0, 1e-4, 1e-8]))
    kind = draw(st.sampled_from(["tie", "tie", "diag", "rank1"]))
    if kind == "tie":
        c = a * draw(st.sampled_from([-1.0, -0.5, -0.25, 0.25, 0.5, 1.0, -0.999, 0.0]))
        H = [[a, c], [c, a]]
    elif kind == "diag":
        b = a * draw(st.sampled_from([0.0, 0.5, 1.0, 2.0, 4.0]))
        H = [[a, 0.0], [0.0, b]]
    else:
        t = draw(st.sampled_from([0.0, 45.0, 90.0, 135.0, 30.0]))
        s, c = math.sin(math.radians(t)), math.cos(math.radians(t))
        H = [[a * s * s, a * s * c], [a * s * c, a * c * c]]
    u = a * draw(st.sampled_from([0.0, 1.0, 3.0]))
    return [[H[0][0], H[0][1], 0.0], [H[1][0], H[1][1], 0.0], [0.0, 0.0, u]]


ell_cases = st.fixed_dictionaries({"vcv": st.one_of(psd_cond(), psd_cond(), tie_matrices())})

def _relative_fill(u):
    """Position x two station scales (standard deviations 1e-6..1 of the joint scale, log-uniform) x a joint 6x6 covariance B B^T whose
    6x6 factor is filled from further radical-inverse streams of the point's first coordinates."""
    lat, lon = -90.0 + 180.0 * u[0], -360.0 + 720.0 * u[1]
    d1, d2 = 10.0 ** (-6.0 * u[2]), 10.0 ** (-6.0 * u[3])
    B = np.empty((6, 6))
    t = u[4]
    for i in range(6):
        for j in range(6):
            t = (t * 61.0 + u[5] * 17.0 + 0.137) % 1.0      # a deterministic scramble of two coordinates: entries in [-1, 1)
            B[i, j] = 2.0 * t - 1.0
    D = np.diag([d1] * 3 + [d2] * 3)
    J = D @ (B @ B.T) @ D * 10.0 ** (-8.0 * u[6])
    return {"lat": lat, "lon": lon, "var1": J[:3, :3].tolist(), "var2": J[3:, 3:].tolist(), "cov12": J[:3, 3:].tolist()}


def _ellipse_fill(u):
    """Horizontal block from (scale, axis ratio 1e-8..1 log-uniform, orientation), a correlated up component."""
    sc, ra, th = 10.0 ** (-8.0 * u[0]), 10.0 ** (-8.0 * u[1]), 180.0 * u[2]
    s_, c_ = math.sin(math.radians(th)), math.cos(math.radians(th))
    l1, l2 = sc, sc * ra
    e2, n2, en = l1 * s_ * s_ + l2 * c_ * c_, l1 * c_ * c_ + l2 * s_ * s_, (l1 - l2) * s_ * c_
    uu = sc * 3.0 * u[3]
    k = 0.9 * (2 * u[4] - 1)
    c = k * math.sqrt(l2 * uu)          # |c|^2 <= lambda_min(H) x up variance keeps the 3x3 matrix positive semi-definite
    return {"vcv": [[e2, en, c], [en, n2, 0.0], [c, 0.0, uu]]}


def _ellipse_lines(rnd):
    """The horizontal block turned through all orientations (0..180 deg) at a seeded pair of eigenvalues, and its axis ratio walked
    from 1e-8 to 1 (log-spaced) at a seeded orientation; two lines each."""
    out = []
    for rep in range(2):
        scale = 10.0 ** rnd.uniform(-8.0, 0.0)
        ratio = [rnd.uniform(0.05, 0.95), 10.0 ** rnd.uniform(-6.0, -0.001)][rep]
        theta = rnd.uniform(0.0, 180.0)
        up = scale * rnd.uniform(0.0, 3.0)

        def make(th, ra, sc=scale, u=up):
            s_, c_ = math.sin(math.radians(th)), math.cos(math.radians(th))
            l1, l2 = sc, sc * ra
            # major axis at bearing th (clockwise from north = second axis): direction (sin, cos)
            e2, n2, en = l1 * s_ * s_ + l2 * c_ * c_, l1 * c_ * c_ + l2 * s_ * s_, (l1 - l2) * s_ * c_
            return {"vcv": [[e2, en, 0.0], [en, n2, 0.0], [0.0, 0.0, u]]}
        out.append((1.0, lambda f, ra=ratio, mk=make: mk(180.0 * f, ra)))
        out.append((1.0, lambda f, th=theta, mk=make: mk(th, 10.0 ** (-8.0 * (1.0 - f)))))
    return out


SUBCHECKS = [
    SubCheck("local_frame", check_frame, strategy=frame_cases, nontrivial=_nt_rot, classes=_cls, quick=3000, thorough=200000,
             shards_quick=2, shards_thorough=8,
             fresh=(8, 64, 3), rule="rotation_matrix columns = (east, north, normal), orthonormal, det +1; enu2xyz / xyz2enu exact inverses, length preserving"),
    SubCheck("covariance_rotation", check_vcv, strategy=vcv_cases, nontrivial=_nt_rot, classes=_cls, quick=3000, thorough=200000,
             shards_quick=2, shards_thorough=8, seq_groups=[["lat", "lon"], ["vcv"]],
             rule="3x3: equals R^T V R / R V R^T, symmetric, eigenvalues and trace preserved, round trip, argument untouched"),
    SubCheck("variance_column", check_column, strategy=col_cases, nontrivial=lambda c: len(set(c["col"])) > 1 and _nt_rot(c),
             classes=_cls, quick=2000, thorough=100000, shards_quick=2, shards_thorough=8,
             rule="3x1 column treated as a diagonal matrix, rotated diagonal returned as 3x1 (both directions)"),
    SubCheck("error_ellipse", check_ellipse, strategy=ell_cases, classes=_cls, quick=3000, thorough=200000, shards_quick=2,
             shards_thorough=8, rule="a^2, b^2 = eigenvalues of the 2x2 block (a >= b >= 0, singular input included); orientation = bearing of the major axis"),
    SubCheck("error_ellipse_sweeps", check_ellipse, enumerate=S.sweeps(1616, _ellipse_lines, 20000, 400000), classes=_cls,
             shards_quick=4, shards_thorough=8,
             rule="stratified sweeps: the horizontal block through every orientation and through axis ratios 1e-8..1 (20 000 / 400 000 lattice points per line, 4 lines, seeded)"),
    SubCheck("error_ellipse_fill", check_ellipse, enumerate=S.fill(1626, 5, _ellipse_fill, 60000, 1200000), classes=_cls,
             shards_quick=4, shards_thorough=8,
             rule="low-discrepancy fill of scale x axis ratio (1e-8..1) x orientation x up variance / correlation: 60 000 / 1 200 000 matrices"),
    SubCheck("relative_error_fill", check_relative, enumerate=S.fill(1627, 7, _relative_fill, 30000, 600000), classes=_cls,
             shards_quick=8, shards_thorough=16,
             rule="low-discrepancy fill of position x the two stations' scales (1e-6..1 in standard deviation) x joint covariance: 30 000 / 600 000 cases"),
    SubCheck("relative_error", check_relative, strategy=relative_cases(), classes=_cls, quick=2000, thorough=100000,
             shards_quick=2, shards_thorough=8,
             fresh=(8, 64, 3), rule="ellipse and up sigma of R^T (var1 + var2 - cov12 - cov12^T) R with a non-symmetric cov12 block from a valid joint covariance"),
    SubCheck("t_table", check_table, enumerate=enumerate_table, shards_quick=1, shards_thorough=1, exhaustive="both",
             rule="all integer dof -5..200: table = round(t_0.975(dof), 5) for 1..120, value for 1 below, 1.96 above"),
]
