"""C19 Survey reductions are geometrically and physically self-consistent."""
import math

from hypothesis import strategies as st

from .. import repo, strategies as S
from ..core import SubCheck, Fail, Discard, metric, target, is_seq

RULE = ("plane coordinates up to 1e7 m (incl. adjacent floats, axis-aligned pairs), bearings over the full circle incl. the axes "
        "+-1e-13; zenith angles in (0, 180) and (180, 360), slope 0.1 m..50 km, heights +-5 m; wavelength 0.4..1.6 um, "
        "T -20..45 C incl. exactly 0, P 650..1100 hPa, vapour pressure 0..40 hPa (as humidity 0..100 %), CO2 300..600 ppm, "
        "distances 1 m..50 km; call sequences sharing part of the atmosphere; non-trivial = off-axis / non-zero humidity and temperature")
ASSUMPTIONS = ["join -> radiation tolerance: 1e-9 x distance + 4 ulp of the largest coordinate (the coordinates themselves carry that)",
               "humidity for a wanted vapour pressure e <= 40 hPa is built with the Magnus saturation formula in the harness; the "
               "check then uses the library's own humidity -> vapour pressure conversion for the stated identity",
               "dispersion derivative by complex step (the routine is pure arithmetic); falls back to a 5-point finite difference "
               "with a 1e-6 relative tolerance if the routine stops accepting complex input"]


# ------------------------------------------------------------------------------------------------ joins / radiations

def _ulp(x):
    return math.ulp(max(abs(x), 1.0))


def check_join_radiate(case):
    sv = repo.mod("geodepy.survey")
    e1, n1, e2, n2 = case["e1"], case["n1"], case["e2"], case["n2"]
    nk = case.get("num", "float")
    r = sv.joins(S.as_kind(e1, nk), S.as_kind(n1, nk), S.as_kind(e2, nk), S.as_kind(n2, nk))
    if not is_seq(r, 2):
        raise Fail("joins did not return (distance, bearing)", observed=repr(r))
    d, brg = r
    if not (0.0 <= brg < 360.0):
        raise Fail("bearing is not in [0, 360)", expected="[0, 360)", observed={"bearing": brg, "distance": d})
    true_d = math.hypot(e2 - e1, n2 - n1)
    slack = 4 * _ulp(max(abs(e1), abs(n1), abs(e2), abs(n2)))
    if not abs(d - true_d) <= 1e-12 * true_d + slack:
        raise Fail("join distance is not the plane distance", expected=true_d, observed=d)
    back = sv.radiations(e1, n1, brg, d)
    miss = math.hypot(back[0] - e2, back[1] - n2)
    metric("join_radiate_miss_over_tol", miss / (1e-9 * d + slack))
    if not miss <= 1e-9 * d + slack:
        raise Fail("radiating the joined distance and bearing from point 1 does not reproduce point 2 within 1e-9 of the distance",
                   expected={"e2": e2, "n2": n2}, observed={"distance": d, "bearing": brg, "e": back[0], "n": back[1], "miss": miss})
    # bearing is clockwise from north: compare with atan2(dE, dN)
    if d > 0:
        want = math.degrees(math.atan2(e2 - e1, n2 - n1)) % 360.0
        db = abs((brg - want + 180.0) % 360.0 - 180.0)
        if not db <= 1e-9:
            raise Fail("bearing is not measured clockwise from north", expected=want, observed=brg)


def check_radiate_args(case):
    sv = repo.mod("geodepy.survey")
    e1, n1, brg, d, rot, k = case["e1"], case["n1"], case["brg"], case["d"], case["rot"], case["k"]
    plain = sv.radiations(e1, n1, brg, d)
    full = sv.radiations(e1, n1, brg, d, rot, k)
    kw = sv.radiations(e1, n1, brg, d, rotation=rot, psf=k)
    if tuple(full) != tuple(kw):
        raise Fail("radiations: keyword and positional rotation / psf arguments give different results", expected=full, observed=kw)
    slack = 4 * _ulp(max(abs(e1), abs(n1))) + 1e-12 * d * max(1.0, k)
    want = (e1 + k * d * math.sin(math.radians(brg + rot)), n1 + k * d * math.cos(math.radians(brg + rot)))
    if not math.hypot(full[0] - want[0], full[1] - want[1]) <= slack:
        raise Fail("radiations: rotation and scale-factor arguments do not rotate and scale the radiated vector",
                   expected=want, observed=full)
    # each optional argument alone (the other left at its default)
    only_k = sv.radiations(e1, n1, brg, d, psf=k)
    want_k = (e1 + k * d * math.sin(math.radians(brg)), n1 + k * d * math.cos(math.radians(brg)))
    if not math.hypot(only_k[0] - want_k[0], only_k[1] - want_k[1]) <= slack:
        raise Fail("radiations: a scale factor given without a rotation does not scale the radiated vector", expected=want_k, observed=only_k)
    only_r = sv.radiations(e1, n1, brg, d, rotation=rot)
    want_r = (e1 + d * math.sin(math.radians(brg + rot)), n1 + d * math.cos(math.radians(brg + rot)))
    if not math.hypot(only_r[0] - want_r[0], only_r[1] - want_r[1]) <= slack:
        raise Fail("radiations: a rotation given without a scale factor does not rotate the radiated vector", expected=want_r, observed=only_r)
    zero_rot = sv.radiations(e1, n1, brg, d, 0, k)
    if not math.hypot(zero_rot[0] - want_k[0], zero_rot[1] - want_k[1]) <= slack:
        raise Fail("radiations: rotation 0 with a scale factor does not scale the radiated vector", expected=want_k, observed=zero_rot)
    want0 = (e1 + d * math.sin(math.radians(brg)), n1 + d * math.cos(math.radians(brg)))
    if not math.hypot(plain[0] - want0[0], plain[1] - want0[1]) <= slack:
        raise Fail("radiations: point is not start + distance x (sin bearing, cos bearing)", expected=want0, observed=plain)
    j = sv.joins(e1, n1, plain[0], plain[1])
    if d > 1e3 * _ulp(max(abs(e1), abs(n1))) * 1e6:
        db = abs((j[1] - brg + 180.0) % 360.0 - 180.0)
        if not (abs(j[0] - d) <= 1e-9 * d + slack and db <= 1e-6):
            raise Fail("joins does not invert radiations", expected={"distance": d, "bearing": brg % 360.0}, observed=j)


# ------------------------------------------------------------------------------------------------ va_conv

def check_va(case):
    sv = repo.mod("geodepy.survey")
    z, sd, hi, ht = case["zen"], case["slope"], case["hi"], case["ht"]
    r0 = sv.va_conv(z, sd)
    if not is_seq(r0, 4):
        raise Fail("va_conv did not return 4 values", observed=repr(r0))
    va0, sd0, hz0, dh0 = r0
    if not abs(hz0 * hz0 + dh0 * dh0 - sd * sd) <= 1e-12 * sd * sd:
        raise Fail("horizontal distance and height difference do not satisfy Pythagoras with the slope distance",
                   expected=sd * sd, observed={"hz": hz0, "dh": dh0, "hz2+dh2": hz0 * hz0 + dh0 * dh0})
    if not hz0 >= 0:
        raise Fail("horizontal distance is negative", observed=r0)
    r1 = sv.va_conv(z, sd, hi, ht)
    if not abs(r1[2] - hz0) <= 1e-12 * sd:
        raise Fail("instrument / target heights changed the horizontal distance", expected=hz0, observed=r1[2])
    if not abs(r1[3] - (dh0 + hi - ht)) <= 1e-12 * (abs(dh0) + abs(hi) + abs(ht)) + 1e-15:
        raise Fail("instrument / target heights do not shift the height difference by hi - ht", expected=dh0 + hi - ht, observed=r1[3])
    if not abs(r1[1] - math.hypot(r1[2], r1[3])) <= 1e-12 * sd:
        raise Fail("ground slope distance is not hypot(horizontal distance, height difference)", observed=r1)
    r2 = sv.va_conv(z, sd, height_inst=hi, height_tgt=ht)
    if tuple(r2) != tuple(r1):
        raise Fail("va_conv: keyword and positional heights give different results", expected=r1, observed=r2)
    # zenith 0 < z < 180: height difference has the sign of cos(z)
    if 0 < z < 180 and abs(math.cos(math.radians(z))) > 1e-9:
        if (dh0 > 0) != (math.cos(math.radians(z)) > 0):
            raise Fail("height difference has the wrong sign for a face-left zenith angle", observed={"zenith": z, "dh": dh0})


# ------------------------------------------------------------------------------------------------ atmosphere

def _svp_hpa(t):
    return 6.1121 * math.exp(17.502 * t / (240.97 + t))


def _rh(case):
    """Humidity (%) realising the case's vapour-pressure fraction: e = frac x min(40 hPa, saturation)."""
    svp = _svp_hpa(case["T"])
    e = case["efrac"] * min(40.0, svp)
    rh = 100.0 * e / svp
    if case["efrac"] == 0.0:
        return 0.0
    return min(rh, 100.0)


def check_first_vel(case):
    sv = repo.mod("geodepy.survey")
    d, lam, T, P, co2, nref = case["dist"], case["lam"], case["T"], case["P"], case["co2"], case["nref"]
    rh = _rh(case)
    params = sv.first_vel_params(lam, None, nref)
    # CO2-aware (Ciddor) form
    c = sv.first_vel_corrn(d, params, T, P, rh, CO2_ppm=co2, wavelength=lam)
    e = sv.humidity2part_water_vapour_press(rh, T)
    ng = 1.0 + sv.group_refractivity(lam, T, P, e, co2) / 1.0e8
    want = (nref / ng - 1.0) * d
    if not abs(c - want) <= 1e-12 * abs(want) + 1e-15 * d:
        raise Fail("CO2-aware first velocity correction is not (reference index / ambient group index - 1) x distance",
                   expected=want, observed={"corrn": c, "rh": rh, "e_hPa": e, "n_g": ng})
    # the same request with every argument by position, in the order of the signature (the wet-bulb slot left at None), and with
    # the two keywords the other way round
    for form, cpos in (("all arguments by position", sv.first_vel_corrn(d, params, T, P, rh, None, co2, lam)),
                       ("keywords in the other order", sv.first_vel_corrn(d, params, T, P, rh, wavelength=lam, CO2_ppm=co2)),
                       ("every argument by keyword", sv.first_vel_corrn(dist=d, first_vel_param=params, temp=T, pressure=P, rel_humidity=rh,
                                                                          CO2_ppm=co2, wavelength=lam))):
        if not abs(cpos - c) <= 1e-12 * abs(c) + 1e-15 * d:
            raise Fail("CO2-aware first velocity correction differs when the same request is written with %s" % form,
                       expected=c, observed=cpos, bucket="first_vel_corrn call form")
    # the instrument's parameters are one thing and the carrier the correction is asked for another: the parameters object that
    # first_vel_params returned for the reference wavelength, handed on with ANOTHER wavelength, gives the correction for the
    # group index at the wavelength asked for
    lam2 = 0.4 + (lam * 7.31 + 0.123) % 1.2
    c_other = sv.first_vel_corrn(d, params, T, P, rh, CO2_ppm=co2, wavelength=lam2)
    ng2 = 1.0 + sv.group_refractivity(lam2, T, P, e, co2) / 1.0e8
    want2 = (nref / ng2 - 1.0) * d
    if not abs(c_other - want2) <= 1e-12 * abs(want2) + 1e-15 * d:
        raise Fail("CO2-aware correction with the parameters returned by first_vel_params for one wavelength and asked for another "
                   "wavelength is not (reference index / group index at the wavelength asked for - 1) x distance",
                   expected=want2, observed={"corrn": c_other, "params_wavelength": lam, "wavelength": lam2}, bucket="params handed on")
    # proportional to the measured distance
    k = case["kd"]
    c2 = sv.first_vel_corrn(d * k, params, T, P, rh, CO2_ppm=co2, wavelength=lam)
    if not abs(c2 - k * c) <= 1e-12 * abs(k * c) + 1e-15 * d * k:
        raise Fail("CO2-aware first velocity correction is not proportional to the distance", expected=k * c, observed=c2)
    # closed-form (Rueger) version: defined, proportional
    r = sv.first_vel_corrn(d, params, T, P, rh)
    r2 = sv.first_vel_corrn(d * k, params, T, P, rh)
    if not abs(r2 - k * r) <= 1e-12 * abs(k * r) + 1e-15 * d * k:
        raise Fail("closed-form first velocity correction is not proportional to the distance", expected=k * r, observed=r2)
    if 0.5 <= lam <= 1.0:
        c420 = sv.first_vel_corrn(d, params, T, P, rh, CO2_ppm=420, wavelength=lam)
        ppm = abs(c420 - r) / d * 1e6
        metric("ciddor_vs_closed_form_ppm", ppm)
        target(ppm, "ciddor_vs_closed_form")
        if not ppm <= 1.0:
            raise Fail("CO2-aware correction at 420 ppm and the closed-form correction differ by more than 1 ppm",
                       expected={"closed_form": r}, observed={"ciddor_420": c420, "ppm": ppm, "rh": rh})


def check_wet_bulb(case):
    """The closed-form version with a wet-bulb temperature (incl. exactly 0 C) instead of humidity."""
    sv = repo.mod("geodepy.survey")
    d, lam, T, P, nref = case["dist"], case["lam"], case["T"], case["P"], case["nref"]
    tw = T - case["depress"]
    params = sv.first_vel_params(lam, None, nref)
    r = sv.first_vel_corrn(d, params, T, P, wet_temp=tw)
    r2 = sv.first_vel_corrn(2 * d, params, T, P, wet_temp=tw)
    if not (isinstance(r, float) and math.isfinite(r)):
        raise Fail("first velocity correction with a wet-bulb temperature is not a finite number", observed=repr(r))
    if not abs(r2 - 2 * r) <= 1e-12 * abs(2 * r) + 1e-15 * d:
        raise Fail("first velocity correction (wet bulb) is not proportional to the distance", expected=2 * r, observed=r2)


def check_dispersion(case):
    sv = repo.mod("geodepy.survey")
    lam, T, P, e, co2 = case["lam"], case["T"], case["P"], case["e"], case["co2"]
    g = sv.group_refractivity(lam, T, P, e, co2)
    p = sv.phase_refractivity(lam, T, P, e, co2)
    tol = 1e-9
    dp = None
    try:
        h = 1e-30
        z = sv.phase_refractivity(complex(lam, h), T, P, e, co2)
        if isinstance(z, complex) and z.imag != 0.0 and abs(z.real - p) <= 1e-12 * abs(p):
            dp = z.imag / h                  # complex-step derivative (only if the routine really carried the imaginary part)
    except Exception:                         # noqa: the routine does not take complex input - use real differences
        dp = None
    if dp is None:
        # central differences with every sample inside the quantified carrier range [0.4, 1.6] um
        hh = 1e-3 * lam
        f = lambda x: sv.phase_refractivity(x, T, P, e, co2)       # noqa
        if lam - 2 * hh < 0.4:                # fourth-order forward differences
            dp = (-25 * f(lam) + 48 * f(lam + hh) - 36 * f(lam + 2 * hh) + 16 * f(lam + 3 * hh) - 3 * f(lam + 4 * hh)) / (12 * hh)
        elif lam + 2 * hh > 1.6:              # fourth-order backward differences
            dp = (25 * f(lam) - 48 * f(lam - hh) + 36 * f(lam - 2 * hh) - 16 * f(lam - 3 * hh) + 3 * f(lam - 4 * hh)) / (12 * hh)
        else:
            dp = (-f(lam + 2 * hh) + 8 * f(lam + hh) - 8 * f(lam - hh) + f(lam - 2 * hh)) / (12 * hh)
        tol = 1e-6
    want = p - lam * dp          # n_g = n_p + sigma dn_p/dsigma = n_p - lambda dn_p/dlambda
    rel = abs(g - want) / abs(want)
    metric("dispersion_rel_err", rel)
    if not rel <= tol:
        raise Fail("group refractivity is not phase refractivity plus its dispersion term sigma dn/dsigma",
                   expected=want, observed={"group": g, "phase": p, "dphase_dlambda": dp, "rel": rel})
    # default CO2 content is 420 ppm in both routines
    if co2 == 420:
        if sv.group_refractivity(lam, T, P, e) != g or sv.phase_refractivity(lam, T, P, e) != p:
            raise Fail("default CO2 content is not the documented 420 ppm", observed=(sv.group_refractivity(lam, T, P, e), g))


# ------------------------------------------------------------------------------------------------ generators

def _nosub(x):
    return 0.0 if abs(x) < 1e-100 else x


coord_s = st.one_of(S.floats(-1e7, 1e7), S.floats(-1e7, 1e7), S.floats(0, 1e6), st.sampled_from([0.0, 1e7, -1e7, 500000.0, 6000000.0])).map(_nosub)


@st.composite
def join_cases(draw):
    e1, n1 = draw(coord_s), draw(coord_s)
    sel = draw(st.integers(0, 5))
    if sel == 0:
        e2, n2 = draw(coord_s), draw(coord_s)
    elif sel == 1:      # axis-aligned
        if draw(st.booleans()):
            e2, n2 = e1, draw(coord_s)
        else:
            e2, n2 = draw(coord_s), n1
    elif sel == 2:      # adjacent floats
        e2 = math.nextafter(e1, math.inf if draw(st.booleans()) else -math.inf) if draw(st.booleans()) else e1
        n2 = math.nextafter(n1, math.inf if draw(st.booleans()) else -math.inf) if draw(st.booleans()) else n1
    elif sel == 3:      # a hair off an axis
        dd = draw(S.log_uniform(0.1, 5e4))
        t = draw(st.sampled_from([1e-13, -1e-13, 1e-10, -1e-10, 1e-16, -1e-16]))
        ax = draw(st.integers(0, 3))
        de, dn = [(t, dd), (dd, t), (t, -dd), (-dd, t)][ax]
        e1, n1 = draw(st.sampled_from([0.0, 1000.0, 500000.0])), draw(st.sampled_from([0.0, 1000.0, 6000000.0]))
        e2, n2 = e1 + de, n1 + dn
    else:
        dd = draw(S.log_uniform(1e-3, 1e5))
        b = draw(S.floats(0.0, 2 * math.pi))
        e2, n2 = e1 + dd * math.sin(b), n1 + dd * math.cos(b)
    nk = draw(S.num_kind)
    if nk == "int" and sel in (0, 1):
        e1, n1, e2, n2 = (float(round(v)) for v in (e1, n1, e2, n2))
    return {"e1": e1, "n1": n1, "e2": e2, "n2": n2, "num": nk}


brg_s = st.one_of(S.floats(0.0, 360.0), S.floats(0.0, 360.0), st.sampled_from([0.0, 90.0, 180.0, 270.0, 360.0, 1e-13, 90.0 + 1e-13, 180.0 - 1e-13,
                                                                              270.0 + 1e-13, 360.0 - 1e-13, 45.0]))
rad_cases = st.fixed_dictionaries({"e1": coord_s, "n1": coord_s, "brg": brg_s, "d": st.one_of(S.log_uniform(1e-3, 1e5), S.floats(0.0, 1e5)),
                                   # (rotations over the open interval: a rotation of exactly one whole turn is not a rotation any caller needs to express)
                                   "rot": st.one_of(S.floats(-360.0, 360.0, exclude_min=True, exclude_max=True), st.sampled_from([0.0, 90.0, -90.0, 1e-9])),
                                   "k": st.one_of(S.floats(0.999, 1.001), st.sampled_from([1.0, 0.9996, 1.0004, 2.0]))})
va_cases = st.fixed_dictionaries({
    "zen": st.one_of(S.floats(0.001, 179.999), S.floats(0.001, 179.999), S.floats(180.001, 359.999), S.floats(80.0, 100.0),
                     st.sampled_from([90.0, 270.0, 45.0, 135.0, 1e-3, 179.999, 180.001, 359.999, 89.999999999, 90.000000001])),
    "slope": st.one_of(S.log_uniform(0.1, 5e4), S.floats(0.1, 5e4)),
    "hi": st.one_of(S.floats(-5.0, 5.0), st.sampled_from([0.0, 1.5])), "ht": st.one_of(S.floats(-5.0, 5.0), st.sampled_from([0.0, 1.5]))})

T_s = st.one_of(S.floats(-20.0, 45.0), S.floats(-20.0, 45.0), st.sampled_from([0.0, -20.0, 45.0, 15.0, 20.0]))
P_s = st.one_of(S.floats(650.0, 1100.0), st.sampled_from([1013.25, 650.0, 1100.0]))
lam_s = st.one_of(S.floats(0.4, 1.6), S.floats(0.5, 1.0), S.floats(0.5, 1.0), st.sampled_from([0.4, 0.5, 0.532, 0.633, 0.85, 0.91, 1.0, 1.6]))
co2_s = st.one_of(S.floats(300.0, 600.0), st.sampled_from([300, 420, 450, 600, 400.0]))
dist_s = st.one_of(S.log_uniform(1.0, 5e4), S.floats(1.0, 5e4))
atm_cases = st.fixed_dictionaries({
    "dist": dist_s, "lam": lam_s, "T": T_s, "P": P_s, "efrac": st.one_of(S.floats(0.0, 1.0), st.sampled_from([0.0, 1.0, 0.5])),
    "co2": co2_s, "nref": st.one_of(S.floats(1.00025, 1.00031), st.sampled_from([1.00028, 1.0002863])),
    "kd": st.one_of(S.floats(0.1, 10.0), st.sampled_from([2.0, 0.5, 3.0]))})
wet_cases = st.fixed_dictionaries({
    "dist": dist_s, "lam": lam_s, "T": T_s, "P": P_s, "nref": st.just(1.00028),
    "depress": st.one_of(S.floats(0.0, 10.0), st.sampled_from([0.0]))}).map(
        lambda c: dict(c, depress=(c["T"] if c["depress"] > 9.0 and 0 <= c["T"] <= 10 else c["depress"])))   # wet bulb exactly 0 C
disp_cases = st.fixed_dictionaries({"lam": lam_s, "T": T_s, "P": P_s, "e": st.one_of(S.floats(0.0, 40.0), st.sampled_from([0.0, 40.0, 10.0])),
                                    "co2": co2_s})


def _cls_atm(case):
    out = []
    if case.get("T") == 0:
        out.append("T=0")
    if case.get("efrac") == 0 or case.get("e") == 0:
        out.append("dry")
    if "lam" in case:
        out.append("carrier 0.5..1.0" if 0.5 <= case["lam"] <= 1.0 else "carrier outside 0.5..1.0")
    if case.get("depress") is not None and case["T"] - case["depress"] == 0:
        out.append("wet-bulb=0")
    return out


def _cls_join(case):
    out = []
    if case["e1"] == case["e2"] or case["n1"] == case["n2"]:
        out.append("axis-aligned")
    if case["e1"] == case["e2"] and case["n1"] == case["n2"]:
        out.append("coincident")
    d = math.hypot(case["e2"] - case["e1"], case["n2"] - case["n1"])
    out.append("d<1mm" if d < 1e-3 else ("d<1km" if d < 1e3 else "d>=1km"))
    return out


def _atm_fill(u):
    return {"T": -20.0 + 65.0 * u[0], "P": 650.0 + 450.0 * u[1], "lam": 0.4 + 1.2 * u[2], "efrac": u[3], "co2": 300.0 + 300.0 * u[4],
            "nref": 1.00025 + 0.00006 * u[5], "dist": 10.0 ** (4.699 * u[6]), "kd": 0.1 + 9.9 * ((u[6] * 97.0) % 1.0)}


def _va_fill(u):
    z = 0.001 + 359.998 * u[0]
    return _no180({"zen": z, "slope": 10.0 ** (-1.0 + 5.699 * u[1]), "hi": -5.0 + 10.0 * u[2], "ht": -5.0 + 10.0 * u[3]})


def _va_lines(rnd):
    """Zenith angles 0.001 .. 359.999 (two lines: a short and a long sight) and the slope distance (log-spaced 0.1 m .. 50 km)."""
    out = []
    for sd in (10.0 ** rnd.uniform(-1.0, 1.5), 10.0 ** rnd.uniform(2.0, 4.7)):
        hi, ht = rnd.choice([0.0, rnd.uniform(-5.0, 5.0)]), rnd.choice([0.0, rnd.uniform(-5.0, 5.0)])
        out.append((1.0, lambda f, s_=sd, a=hi, b=ht: {"zen": min(max(0.001 + 359.998 * f, 0.001), 359.999), "slope": s_, "hi": a, "ht": b}))
    z = rnd.uniform(60.0, 120.0)
    out.append((0.5, lambda f, z_=z: {"zen": z_, "slope": 10.0 ** (-1.0 + 5.699 * f), "hi": 1.5, "ht": 1.7}))
    return [(w, (lambda f, g=fn: _no180(g(f)))) for w, fn in out]


def _no180(c):
    if abs(c["zen"] - 180.0) < 1e-3:
        c["zen"] = 180.001
    return c


def _atm_lines(rnd):
    """Temperature, pressure, carrier wavelength, humidity fraction, CO2 content and reference index each walked across its range,
    the rest of the atmosphere fixed per line by the seed."""
    rng = {"T": (-20.0, 45.0), "P": (650.0, 1100.0), "lam": (0.4, 1.6), "efrac": (0.0, 1.0), "co2": (300.0, 600.0), "nref": (1.00025, 1.00031)}
    out = []
    for key in ("T", "P", "lam", "efrac", "co2", "nref"):
        base = {k: rnd.uniform(*v) for k, v in rng.items()}
        base.update(dist=10.0 ** rnd.uniform(2.0, 4.7), kd=rnd.uniform(0.1, 10.0))
        lo, hi = rng[key]
        out.append((1.0, lambda f, b=base, k=key, l=lo, h=hi: dict(b, **{k: l + (h - l) * f})))
    return out


SUBCHECKS = [
    SubCheck("join_then_radiate", check_join_radiate, strategy=join_cases(), classes=_cls_join,
             nontrivial=lambda c: c["e1"] != c["e2"] and c["n1"] != c["n2"], quick=4000, thorough=300000, shards_quick=2, shards_thorough=8,
             rule="joins -> radiations reproduces point 2 within 1e-9 d (+4 ulp); bearing in [0, 360), clockwise from north"),
    SubCheck("radiation_arguments", check_radiate_args, strategy=rad_cases, quick=3000, thorough=200000, shards_quick=2, shards_thorough=8,
             fresh=(8, 64, 3), rule="rotation and psf arguments rotate / scale the radiated vector; joins inverts radiations"),
    SubCheck("zenith_reduction", check_va, strategy=va_cases, nontrivial=lambda c: c["hi"] != 0 or c["ht"] != 0, quick=3000,
             thorough=200000, shards_quick=2, shards_thorough=8,
             rule="hz^2 + dh0^2 = slope^2 (1e-12), heights shift only dh, both zenith ranges"),
    SubCheck("first_velocity_correction", check_first_vel, strategy=atm_cases, classes=_cls_atm,
             nontrivial=lambda c: c["T"] != 0 and c["efrac"] != 0, quick=3000, thorough=200000, shards_quick=3, shards_thorough=12,
             seq_groups=[["dist", "kd"], ["lam"], ["T", "P", "efrac"], ["co2"], ["nref"]],
             fresh=(8, 64, 3), rule="defined on the whole atmosphere domain incl. 0 C / 0 %; Ciddor form = (n_ref / n_g - 1) d; linear in d; within 1 ppm "
                  "of the closed form at 420 ppm for carriers 0.5..1.0 um; sequences re-use the atmosphere with another carrier"),
    SubCheck("zenith_axis_sweeps", check_va, enumerate=S.sweeps(1919, _va_lines, 20000, 400000), shards_quick=4, shards_thorough=8,
             rule="stratified sweeps of the zenith angle (0.001 .. 359.999 deg, two lines) and the slope distance (20 000 / 400 000 lattice points per line, seeded)"),
    SubCheck("atmosphere_axis_sweeps", check_first_vel, enumerate=S.sweeps(1920, _atm_lines, 4000, 80000), classes=_cls_atm,
             shards_quick=8, shards_thorough=16,
             rule="stratified sweeps of temperature, pressure, wavelength, humidity, CO2 and reference index (4 000 / 80 000 lattice points per line, seeded)"),
    SubCheck("zenith_fill", check_va, enumerate=S.fill(1929, 4, _va_fill, 60000, 1200000), shards_quick=4, shards_thorough=8,
             nontrivial=lambda c: c["hi"] != 0 or c["ht"] != 0,
             rule="low-discrepancy fill of zenith angle x slope distance (log) x instrument height x target height: 60 000 / 1 200 000 points"),
    SubCheck("atmosphere_fill", check_first_vel, enumerate=S.fill(1930, 7, _atm_fill, 30000, 600000), classes=_cls_atm,
             shards_quick=12, shards_thorough=16,
             rule="low-discrepancy fill of temperature x pressure x wavelength x humidity x CO2 x reference index x distance: 30 000 / 600 000 atmospheres"),
    SubCheck("first_velocity_wet_bulb", check_wet_bulb, strategy=wet_cases, classes=_cls_atm, quick=1500, thorough=50000,
             shards_quick=1, shards_thorough=4, rule="closed form with a wet-bulb temperature (incl. exactly 0 C): defined, linear in d"),
    SubCheck("dispersion_identity", check_dispersion, strategy=disp_cases, classes=_cls_atm, quick=3000, thorough=200000,
             shards_quick=2, shards_thorough=8, seq_groups=[["lam"], ["T", "P", "e"], ["co2"]],
             rule="group refractivity = phase - lambda d(phase)/d(lambda), derivative by complex step, 1e-9 relative"),
]
