"""C12 Angle-object arithmetic and comparison agree with decimal-degree arithmetic."""
import math
from fractions import Fraction

from hypothesis import strategies as st

from .. import repo, strategies as S
from ..core import SubCheck, Fail, Discard, HarnessError, metric
from ..oracles import angle_ref as AR

RULE = ("random expression trees (depth 1..6) over + - neg abs *k k* /k %m round(.,n) round(.), k / m as float, int or numpy scalars, "
        "exact multiples of the modulus, every tree also under the five homogeneous and 1..3 generated class assignments, "
        "optional comparison at the root, leaves "
        "from all five classes with values in [-360, 360] incl. 0, -0, (-1, 0) deg and minute / degree boundaries; intermediate "
        "magnitudes < 720 deg; non-trivial = at least two classes in the tree, or a leaf on a boundary / in (-1, 1) deg")
ASSUMPTIONS = ["per node: the result is compared with the same Python operator applied to the operands' *actual* .dec() values "
               "(what the statement promises), tolerance 1e-8 arc-seconds, decided exactly (Fraction) when within 10 % of it",
               "whole tree vs plain float evaluation of the leaf values: tolerance propagated through the tree "
               "(1e-8\" per node, scaled by |k| or 1/|k| through products); trees containing % or round are compared per node only "
               "(those operators are discontinuous)",
               "leaf objects are built from a float by the library's own constructors (DECAngle(x), dec2hpa, dec2gona, dec2dms, dec2ddm)"]

TOL_DEG = 1e-8 / 3600.0
CLS = ["dec", "hp", "gon", "dms", "ddm"]


def selftest():
    AR.selftest()


def _types():
    a = repo.mod("geodepy.angles")
    return {"dec": a.DECAngle, "hp": a.HPAngle, "gon": a.GONAngle, "dms": a.DMSAngle, "ddm": a.DDMAngle}


_KW = [False]      # leaves of the tree being evaluated are built through the constructors' keyword arguments


def _leaf(cls, x):
    a = repo.mod("geodepy.angles")
    o = {"dec": a.DECAngle, "hp": a.dec2hpa, "gon": a.dec2gona, "dms": a.dec2dms, "ddm": a.dec2ddm}[cls](x)
    if not _KW[0]:
        return o
    # the same object written with the constructor's parameter names
    if cls == "dec":
        return a.DECAngle(dec_angle=x)
    if cls == "hp":
        return a.HPAngle(hp_angle=o.hp_angle)
    if cls == "gon":
        return a.GONAngle(gon_angle=o.gon_angle)
    if cls == "dms":
        return a.DMSAngle(degree=o.degree, minute=o.minute, second=o.second, positive=o.positive)
    return a.DDMAngle(degree=o.degree, minute=o.minute, positive=o.positive)


def _dec(obj, what):
    try:
        v = obj.dec()
    except Exception as e:   # noqa
        raise Fail("%s: the result object cannot be read back: %s: %s" % (what, type(e).__name__, e),
                   observed=repr(obj), bucket=what + " unreadable")
    return float(v)


def _close(got, want, tol_deg, what, ctx):
    d = abs(got - want)
    if d <= 0.9 * tol_deg:
        return
    if abs(Fraction(got) - Fraction(want)) > Fraction(tol_deg):
        raise Fail("%s differs from the same operation on the operands' decimal-degree values by more than the tolerance" % what,
                   expected={"deg": want, "tol_arcsec": tol_deg * 3600}, observed=dict(ctx, deg=got, diff_arcsec=d * 3600),
                   bucket=what + " value")


def _cls_of(obj):
    t = type(obj)
    for k, v in _types().items():
        if t is v:
            return k
    return None


def _state(o):
    """Public fields of an angle object (operators must not modify their operands)."""
    return tuple((f, getattr(o, f)) for f in ("dec_angle", "hp_angle", "gon_angle", "degree", "minute", "second", "positive")
                 if hasattr(o, f)) + ((float(o),) if isinstance(o, float) else ())


def _eval(node, path="root"):
    """-> (object, float reference value, propagated tolerance in degrees, exact-comparable flag)"""
    # evaluate, then make sure no operand object was modified by the operation that consumed it
    if node["op"] == "leaf":
        return _eval1(node, path)
    return _eval_checked(node, path)


def _eval_checked(node, path):
    op = node["op"]
    before = []

    def ev(n, p):
        r = _eval(n, p)
        before.append((r[0], _state(r[0]), n))
        return r
    res = _eval1(node, path, ev)
    for o, st0, n in before:
        if _state(o) != st0:
            raise Fail("%s modified its operand (the operand object no longer holds the angle it held)" % op,
                       expected=dict((k, v) for k, v in st0 if isinstance(k, str)), observed=repr(o), bucket="%s mutates operand" % op)
    return res


def _eval1(node, path="root", _ev=None):
    """-> (object, float reference value, propagated tolerance in degrees, exact-comparable flag)"""
    _eval = _ev if _ev is not None else globals()["_eval"]      # noqa: children are evaluated through the tracking evaluator
    op = node["op"]
    if op == "leaf":
        try:
            o = _leaf(node["cls"], node["v"])
        except Exception as e:  # noqa
            raise Fail("building a %s object from %r raised %s: %s" % (node["cls"], node["v"], type(e).__name__, e),
                       bucket="leaf %s raises" % node["cls"])
        got = _dec(o, "leaf %s" % node["cls"])
        _close(got, node["v"], TOL_DEG, "leaf %s" % node["cls"], {"value": node["v"], "object": repr(o)})
        return o, float(node["v"]), TOL_DEG, True
    if op in ("add", "sub"):
        lo, lv, lt, lx = _eval(node["l"], path + ".l")
        ro, rv, rt, rx = _eval(node["r"], path + ".r")
        xa, yb = _dec(lo, "operand"), _dec(ro, "operand")
        want = xa + yb if op == "add" else xa - yb
        ref = lv + rv if op == "add" else lv - rv
        if abs(want) >= 719.0 or abs(ref) >= 719.0:
            raise Discard()
        try:
            res = lo + ro if op == "add" else lo - ro
        except Exception as e:  # noqa
            raise Fail("%s + %s raised %s: %s" % (_cls_of(lo), _cls_of(ro), type(e).__name__, e) if op == "add" else
                       "%s - %s raised %s: %s" % (_cls_of(lo), _cls_of(ro), type(e).__name__, e),
                       observed={"left": repr(lo), "right": repr(ro)}, bucket="%s %s raises" % (op, _cls_of(lo)))
        what = "%s(%s,%s)" % (op, _cls_of(lo), _cls_of(ro))
        if type(res) is not type(lo):
            raise Fail("%s: the result does not have the class of the left operand" % what, expected=type(lo).__name__,
                       observed=type(res).__name__, bucket=what + " class")
        _close(_dec(res, what), want, TOL_DEG, what, {"left": repr(lo), "right": repr(ro), "result": repr(res)})
        return res, ref, lt + rt + TOL_DEG, lx and rx
    if op in ("neg", "abs"):
        ao, av, at, ax = _eval(node["a"], path + ".a")
        xa = _dec(ao, "operand")
        res = -ao if op == "neg" else abs(ao)
        what = "%s(%s)" % (op, _cls_of(ao))
        if type(res) is not type(ao):
            raise Fail("%s: the result changed class" % what, expected=type(ao).__name__, observed=type(res).__name__,
                       bucket=what + " class")
        _close(_dec(res, what), -xa if op == "neg" else abs(xa), TOL_DEG, what, {"operand": repr(ao), "result": repr(res)})
        return res, (-av if op == "neg" else abs(av)), at + TOL_DEG, ax
    if op in ("mul", "rmul", "div"):
        ao, av, at, ax = _eval(node["a"], path + ".a")
        k = S.as_kind(node["k"], node.get("knum", "float"))
        if node.get("knum") == "npint" and float(node["k"]).is_integer():
            import numpy as _np
            k = _np.int64(int(node["k"]))
        xa = _dec(ao, "operand")
        want = xa * k if op == "mul" else (k * xa if op == "rmul" else xa / k)
        ref = av * k if op != "div" else av / k
        if abs(want) >= 719.0 or abs(ref) >= 719.0:
            raise Discard()
        try:
            res = ao * k if op == "mul" else (k * ao if op == "rmul" else ao / k)
        except Exception as e:  # noqa
            raise Fail("%s of a %s object by %r raised %s: %s" % (op, _cls_of(ao), k, type(e).__name__, e),
                       observed={"operand": repr(ao)}, bucket="%s %s raises" % (op, _cls_of(ao)))
        what = "%s(%s)" % (op, _cls_of(ao))
        if type(res) is not type(ao) and not (op == "rmul" and _cls_of(ao) == "dec" and type(k).__module__ == "numpy"):
            # (a numpy scalar on the left of a DECAngle - a float subclass - is multiplied by numpy itself: not the library's doing)
            raise Fail("%s: the result does not have the class of the angle operand" % what, expected=type(ao).__name__,
                       observed=type(res).__name__, bucket=what + " class")
        if type(res) is not type(ao):
            _close(float(res), want, TOL_DEG, what, {"operand": repr(ao), "k": repr(k)})
            return ao.__class__(float(res)), ref, at * (abs(k) if op != "div" else 1.0 / abs(k)) + TOL_DEG, ax
        _close(_dec(res, what), want, TOL_DEG, what, {"operand": repr(ao), "k": k, "result": repr(res)})
        scale = abs(k) if op != "div" else 1.0 / abs(k)
        return res, ref, at * scale + TOL_DEG, ax
    if op == "mod":
        ao, av, at, ax = _eval(node["a"], path + ".a")
        if _cls_of(ao) not in ("dms", "ddm"):
            raise Discard()
        m = S.as_kind(node["m"], node.get("knum", "float"))
        xa = _dec(ao, "operand")
        want = xa % m
        res = ao % m
        what = "mod(%s)" % _cls_of(ao)
        if type(res) is not type(ao):
            raise Fail("%s: the result changed class" % what, expected=type(ao).__name__, observed=type(res).__name__,
                       bucket=what + " class")
        _close(_dec(res, what), want, TOL_DEG, what, {"operand": repr(ao), "m": m, "result": repr(res)})
        return res, want, TOL_DEG, False
    if op == "round":
        ao, av, at, ax = _eval(node["a"], path + ".a")
        c = _cls_of(ao)
        if c == "hp":
            raise Discard()
        n = node["n"]
        xa = _dec(ao, "operand")
        res = round(ao, n) if n is not None else round(ao)      # round(a) is rounding to 0 places
        n = 0 if n is None else n
        what = "round(%s)" % c
        if type(res) is not type(ao):
            raise Fail("%s: the result changed class" % what, expected=type(ao).__name__, observed=type(res).__name__,
                       bucket=what + " class")
        unit = {"dec": 1.0, "gon": 0.9, "dms": 1.0 / 3600.0, "ddm": 1.0 / 60.0}[c]
        lim = 0.5 * 10.0 ** (-n) * unit * (1 + 1e-9) + TOL_DEG
        got = _dec(res, what)
        if not abs(got - xa) <= lim:
            raise Fail("%s to %d places changes the angle by more than half a unit of that place" % (what, n),
                       expected={"deg": xa, "max_change_deg": lim}, observed={"operand": repr(ao), "result": repr(res), "deg": got},
                       bucket=what + " value")
        # ... and the rounded field has no more than n places
        field = {"dec": lambda: float(res), "gon": lambda: float(res), "dms": lambda: res.second, "ddm": lambda: res.minute}[c]()
        scaled = field * 10.0 ** n
        if not abs(scaled - round(scaled)) <= 1e-6 * max(1.0, abs(scaled)) * 1e-3 + 1e-9:
            raise Fail("%s to %d places leaves more than %d places" % (what, n, n), expected="a multiple of 1e-%d" % n,
                       observed={"operand": repr(ao), "result": repr(res), "field": field}, bucket=what + " not rounded")
        return res, got, TOL_DEG, False
    raise HarnessError("unknown op %r" % op)


def check_tree(case):
    _KW[0] = bool(case.get("kw"))
    try:
        _check_tree(case)
    finally:
        _KW[0] = False


def _check_tree(case):
    root = case["tree"]
    if root["op"] in ("eq", "ne", "lt", "gt"):
        lo, lv, lt, lx = _eval(root["l"])
        ro, rv, rt, rx = _eval(root["r"])
        xa, yb = _dec(lo, "operand"), _dec(ro, "operand")
        op = root["op"]
        want = {"eq": xa == yb, "ne": xa != yb, "lt": xa < yb, "gt": xa > yb}[op]
        got = {"eq": lambda: lo == ro, "ne": lambda: lo != ro, "lt": lambda: lo < ro, "gt": lambda: lo > ro}[op]()
        if got is not want and bool(got) != want:
            raise Fail("comparison %s(%s,%s) disagrees with the comparison of the decimal-degree values" % (op, _cls_of(lo), _cls_of(ro)),
                       expected=want, observed={"left": repr(lo), "right": repr(ro), "left_deg": xa, "right_deg": yb, "result": got},
                       bucket="compare %s" % op)
        # ... and with the exact comparison of the intended values unless they are within tolerance of one another
        if lx and rx and abs(lv - rv) > lt + rt:
            wv = {"eq": lv == rv, "ne": lv != rv, "lt": lv < rv, "gt": lv > rv}[op]
            if bool(got) != wv:
                raise Fail("comparison %s disagrees with the comparison of the values the operands were built from" % op,
                           expected=wv, observed={"left": repr(lo), "right": repr(ro), "left_value": lv, "right_value": rv})
        return
    o, ref, tol, exact = _eval(root)
    if exact:
        got = _dec(o, "expression")
        metric("tree_err_over_tol", abs(got - ref) / tol)
        if not abs(got - ref) <= tol:
            raise Fail("the expression evaluates to a different angle than the same expression on plain decimal degrees",
                       expected={"deg": ref, "tol_arcsec": tol * 3600}, observed={"deg": got, "result": repr(o),
                                                                                 "diff_arcsec": abs(got - ref) * 3600},
                       bucket="tree value")
        # "whichever notations its operands are held in": the same tree under other assignments of classes to its leaves
        # (the five homogeneous ones and the generated ones); all must give the angle of the float evaluation
        import random
        nleaf = len(_leaves(root, []))
        assigns = [[c] * nleaf for c in CLS]
        for sd in case.get("assign", []):
            rnd = random.Random(sd)
            assigns.append([rnd.choice(CLS) for _ in range(nleaf)])
        for a in assigns:
            t2 = _reassign(root, iter(a))
            try:
                o2, ref2, tol2, exact2 = _eval(t2)
            except Discard:
                continue        # e.g. a modulo whose left operand is no longer a DMS / DDM object
            if not exact2:
                continue
            got2 = _dec(o2, "expression")
            if not abs(got2 - ref) <= max(tol, tol2):
                raise Fail("the expression evaluates to a different angle when its operands are held in other notations",
                           expected={"deg": ref, "tol_arcsec": max(tol, tol2) * 3600},
                           observed={"classes": a, "deg": got2, "result": repr(o2), "diff_arcsec": abs(got2 - ref) * 3600},
                           bucket="tree value (other notations)")


def _reassign(node, classes):
    if node["op"] == "leaf":
        return dict(node, cls=next(classes))
    out = dict(node)
    for k in ("l", "r", "a"):
        if k in node:
            out[k] = _reassign(node[k], classes)
    return out


# ------------------------------------------------------------------------------------------------ generators

def _boundary_values():
    out = [0.0, -0.0, 1e-12, -1e-12, 0.5, -0.5, -1.0 / 3600.0, 1.0 / 3600.0, 30.0, -30.0, 180.0, 90.0, 360.0, -360.0,
           29.999999999999996, -0.9999999999999999, 359.9999999999999, 59.99999999999 / 60.0]
    for d in (0, 7, 36, 120, 359):
        for m in (0, 3, 59):
            for s in (0.0, 59.999999999):
                out.append(d + m / 60.0 + s / 3600.0)
                out.append(-(d + m / 60.0 + s / 3600.0))
    return out


@st.composite
def _wholeminute(draw):
    d = draw(st.integers(-359, 359))
    m = draw(st.integers(0, 59))
    v = abs(d) + m / 60.0
    return -v if (d < 0 or draw(st.booleans())) else v


value_s = st.one_of(S.floats(-360.0, 360.0), S.floats(-360.0, 360.0), S.floats(-1.0, 1.0), st.sampled_from(_boundary_values()),
                    _wholeminute(), _wholeminute())
leaf_s = st.builds(lambda c, v: {"op": "leaf", "cls": c, "v": v}, st.sampled_from(CLS), value_s)
k_s = st.one_of(st.sampled_from([2, 3, 0.5, -1, -2.5, 7, 0.1, 10, -2, -3]), S.floats(0.01, 3.0), S.floats(-3.0, -0.01))
knum_s = st.sampled_from(["float"] * 5 + ["int", "np64", "npint"])


@st.composite
def _exact_multiple_mod(draw):
    """A DMS / DDM angle that is an exact multiple (of either sign, or a signed zero) of the modulus: the remainder is 0."""
    m = draw(st.sampled_from([360, 180, 90, 30, 7.5, 1, 0.5, 0.25]))
    j = draw(st.integers(-6, 6))
    v = float(j * m)
    if abs(v) > 360:
        v = math.copysign(float(m), v)
    if v == 0.0 and draw(st.booleans()):
        v = -0.0
    return {"op": "mod", "a": {"op": "leaf", "cls": draw(st.sampled_from(["dms", "ddm"])), "v": v}, "m": m,
            "knum": draw(knum_s)}


def _extend(children):
    return st.one_of(
        st.builds(lambda l, r: {"op": "add", "l": l, "r": r}, children, children),
        st.builds(lambda l, r: {"op": "sub", "l": l, "r": r}, children, children),
        st.builds(lambda a: {"op": "neg", "a": a}, children),
        st.builds(lambda a: {"op": "abs", "a": a}, children),
        st.builds(lambda a, k, n: {"op": "mul", "a": a, "k": k, "knum": n}, children, k_s, knum_s),
        st.builds(lambda a, k, n: {"op": "rmul", "a": a, "k": k, "knum": n}, children, k_s, knum_s),
        st.builds(lambda a, k, n: {"op": "div", "a": a, "k": k, "knum": n}, children, k_s, knum_s),
        st.builds(lambda a, m, n: {"op": "mod", "a": a, "m": m, "knum": n}, children,
                  st.one_of(st.sampled_from([360, 180, 90, 1, 360.0, -90, -360.0]), S.floats(0.1, 360.0)), knum_s),
        st.builds(lambda a, n: {"op": "round", "a": a, "n": n}, children, st.one_of(st.integers(0, 6), st.integers(0, 9), st.none())),
        _exact_multiple_mod(),
    )


@st.composite
def _rounded_to_boundary(draw):
    """A comparison whose left operand is the OUTPUT of a rounding that lands on a field boundary (59.9996 minutes rounded to 3 places:
    the object then holds 60.0 minutes) and whose right operand is the same angle held the ordinary way (next whole minute / degree)."""
    cls = draw(st.sampled_from(["ddm", "dms"]))
    n = draw(st.integers(0, 6))
    frac = draw(S.floats(0.02, 0.45))
    deg = draw(st.integers(0, 359))
    sgn = draw(st.sampled_from([1.0, 1.0, -1.0]))
    if cls == "ddm":
        v, w = deg + (60.0 - frac * 10.0 ** -n) / 60.0, deg + 1.0
    else:
        m = draw(st.sampled_from([59, 59, 0, 17, 30]))
        v, w = deg + m / 60.0 + (60.0 - frac * 10.0 ** -n) / 3600.0, deg + (m + 1) / 60.0
    left = {"op": "round", "a": {"op": "leaf", "cls": cls, "v": sgn * v}, "n": n}
    right = {"op": "leaf", "cls": draw(st.sampled_from(CLS + [cls, cls])), "v": sgn * w}
    if draw(st.booleans()):
        left, right = right, left
    return {"op": draw(st.sampled_from(["eq", "ne", "lt", "gt"])), "l": left, "r": right}


tree_s = st.recursive(leaf_s, _extend, max_leaves=8)
root_s = st.one_of(tree_s, tree_s, tree_s,
                   st.builds(lambda o, l, r: {"op": o, "l": l, "r": r}, st.sampled_from(["eq", "ne", "lt", "gt"]), tree_s, tree_s),
                   _rounded_to_boundary(),
                   # equal angles held in two different classes
                   st.builds(lambda o, c1, c2, v: {"op": o, "l": {"op": "leaf", "cls": c1, "v": v}, "r": {"op": "leaf", "cls": c2, "v": v}},
                             st.sampled_from(["eq", "ne", "lt", "gt"]), st.sampled_from(CLS), st.sampled_from(CLS), _wholeminute()))
cases = st.builds(lambda t, a, kw: {"tree": t, "assign": a, "kw": kw}, root_s, st.lists(st.integers(0, 2 ** 30), min_size=1, max_size=3),
                  st.sampled_from([False, False, False, True]))


def _fill_build(u):
    """One operator on one or two leaves: operand values uniform in +-360 deg, operator, operand classes, multiplier / modulus /
    rounding digits from the coordinates of a low-discrepancy point (check_tree also evaluates the five homogeneous class assignments)."""
    a, b = -360.0 + 720.0 * u[0], -360.0 + 720.0 * u[1]
    op, r = S.u_pick(u[2], ["add", "add", "sub", "sub", "mul", "rmul", "div", "mod", "neg", "abs", "round"])
    c1, r = S.u_pick(r, CLS)
    c2, r = S.u_pick(r, CLS)
    la, lb = {"op": "leaf", "cls": c1, "v": a}, {"op": "leaf", "cls": c2, "v": b}
    k = (0.01 + 2.99 * u[3]) * (1 if r < 0.5 else -1)
    if op in ("add", "sub"):
        t = {"op": op, "l": la, "r": lb}
    elif op in ("mul", "rmul", "div"):
        t = {"op": op, "a": la, "k": k, "knum": "float"}
    elif op == "mod":
        t = {"op": "mod", "a": dict(la, cls=("dms" if r < 0.5 else "ddm")), "m": 0.1 + 359.9 * u[3], "knum": "float"}
    elif op == "round":
        t = {"op": "round", "a": la, "n": min(int(u[3] * 10), 9)}
    else:
        t = {"op": op, "a": la}
    return {"tree": t, "assign": [int(u[3] * 2 ** 30)]}


def _leaves(node, acc):
    if node["op"] == "leaf":
        acc.append(node)
    else:
        for k in ("l", "r", "a"):
            if k in node:
                _leaves(node[k], acc)
    return acc


def _ops(node, acc):
    acc.append(node["op"])
    for k in ("l", "r", "a"):
        if k in node:
            _ops(node[k], acc)
    return acc


def _depth(node):
    return 1 + max([_depth(node[k]) for k in ("l", "r", "a") if k in node] or [0])


def _nt(case):
    ls = _leaves(case["tree"], [])
    if len({l["cls"] for l in ls}) >= 2:
        return True
    return any(abs(l["v"]) < 1.0 or abs(l["v"] * 60 - round(l["v"] * 60)) < 1e-9 for l in ls)


def _classes(case):
    t = case["tree"]
    ls = _leaves(t, [])
    out = ["depth:%d" % min(_depth(t), 6), "classes:%d" % len({l["cls"] for l in ls})]
    out += sorted({"op:" + o for o in _ops(t, []) if o != "leaf"})
    if any(-1.0 < l["v"] < 0.0 for l in ls):
        out.append("leaf in (-1,0)")
    return out


SUBCHECKS = [
    SubCheck("expression_trees", check_tree, strategy=cases, nontrivial=_nt, classes=_classes,
             quick=6000, thorough=600000, shards_quick=6, shards_thorough=16,
             fresh=(8, 64, 3), rule="per node: operator result == operator on .dec() values (1e-8\"), class of the left operand, rounding bound; "
                  "whole tree == float evaluation with propagated tolerance; comparisons at the root"),
    SubCheck("operator_fill", check_tree, enumerate=S.fill(1212, 4, _fill_build, 40000, 800000), nontrivial=_nt, classes=_classes,
             shards_quick=12, shards_thorough=16,
             rule="low-discrepancy fill of (operand, operand) in +-360 deg x operator x operand classes x multiplier / modulus / digits: "
                  "40 000 / 800 000 single-operator expressions, each also under the five homogeneous class assignments"),
]
