"""C03 Geodetic <-> Cartesian conversion is exact and self-inverse on every ellipsoid."""
import math

from hypothesis import strategies as st

from .. import repo, strategies as S
from ..core import SubCheck, Fail, Discard, metric, target, is_seq

RULE = ("Hypothesis strategies over (lat, lon, h, ellipsoid, angle notation) and over Cartesian points in all "
        "octants incl. points exactly in the coordinate planes through the axis and down to 1e-12 m from it; floats, ints (all three "
        "whole), numpy float64, mixed angle classes, default ellipsoid / keyword forms; non-trivial = |lat| > 1e-6 deg or an "
        "ellipsoid other than GRS80 (the lat == 0 branch on another ellipsoid is counted in class 'equator x non-grs80')")
ASSUMPTIONS = ["closed form: nu = a / sqrt(1 - e^2 sin^2 lat), e^2 = f (2 - f), evaluated in double precision "
               "(error < 1e-8 m at these magnitudes)",
               "ellipsoids with 1/f >= 150 (the quantifier of C01..C05; the fixed 1e-10 rad stopping rule of the "
               "inverse bounds its error by e^2 nu 1e-10 < 0.02 mm only for such flattenings)"]

LAT_EDGES = [0.0, 90.0, -90.0, 45.0, -45.0, 89.999999, -89.999999, 89.9999999999, -89.9999999999]
LON_EDGES = [0.0, 90.0, -90.0, 180.0, -180.0, 270.0, -270.0, 360.0, -360.0]

lat_s = st.one_of(S.floats(-90, 90), S.floats(-90, 90), st.sampled_from(LAT_EDGES),
                  st.sampled_from([1e-9, -1e-9, 1e-13, -1e-13, 5e-324, -5e-324, 1e-300]),
                  S.log_uniform(1e-12, 1.0).map(lambda d: 90.0 - d), S.log_uniform(1e-12, 1.0).map(lambda d: d - 90.0))
lon_s = st.one_of(S.floats(-360, 360), S.floats(-360, 360), st.sampled_from(LON_EDGES))
h_s = st.one_of(S.floats(-1e4, 4e7), S.floats(-1e4, 1e4), st.sampled_from([0.0, -1e4, 4e7]),
                S.log_uniform(1.0, 4e7))


def closed_form(lat, lon, h, a, invf):
    f = 1.0 / invf
    e2 = f * (2.0 - f)
    phi = math.radians(lat)
    lam = math.radians(lon)
    s = math.sin(phi)
    nu = a / math.sqrt(1.0 - e2 * s * s)
    c = math.cos(phi)
    return (nu + h) * c * math.cos(lam), (nu + h) * c * math.sin(lam), (nu * (1.0 - e2) + h) * s


def _dist(p, q):
    return math.sqrt(sum((x - y) ** 2 for x, y in zip(p, q)))


def check_forward(case):
    cv = repo.mod("geodepy.convert")
    ell = S.make_ellipsoid(case["ell"])
    a, invf = S.ellipsoid_params(case["ell"])
    lat_o = S.angle_obj(case["kind"], case["lat"])
    lon_o = S.angle_obj(case.get("kind2") or case["kind"], case["lon"])
    lat = S.obj_dec(lat_o)
    lon = S.obj_dec(lon_o)
    nk = case.get("num", "float")
    if type(lat_o) is float:
        lat_o = S.as_kind(lat, nk)
    if type(lon_o) is float:
        lon_o = S.as_kind(lon, nk)
    if case["ell"] == "grs80" and case["h"] == 0 and case.get("defaults"):
        got = cv.llh2xyz(lat_o, lon_o)                                   # height 0 and GRS80 are the documented defaults
    elif case["ell"] == "grs80" and case.get("defaults"):
        got = cv.llh2xyz(lat_o, lon_o, ellht=S.as_kind(case["h"], nk))
    else:
        got = cv.llh2xyz(lat_o, lon_o, S.as_kind(case["h"], nk), ell)
    if not is_seq(got, 3):
        raise Fail("llh2xyz did not return an (x, y, z) tuple", observed=repr(got))
    want = closed_form(lat, lon, case["h"], a, invf)
    d = _dist(got, want)
    metric("forward_err_m", d)
    target(d, "forward_err")
    if not d <= 1e-6:
        raise Fail("llh2xyz differs from the closed form by more than 1 micrometre",
                   expected={"xyz": want, "tol_m": 1e-6}, observed={"xyz": got, "dist_m": d})
    if case["kind"] != "float" or (case.get("kind2") or "float") != "float":
        plain = cv.llh2xyz(lat, lon, case["h"], ell)
        if not _dist(plain, got) <= 1e-7:         # a tenth of the stated micrometre: rounding-level route differences pass
            raise Fail("llh2xyz with angle objects differs from the call with their decimal values",
                       expected=list(plain), observed=list(got))


def _check_inverse_xyz(x, y, z, case):
    cv = repo.mod("geodepy.convert")
    ell = S.make_ellipsoid(case["ell"])
    a, invf = S.ellipsoid_params(case["ell"])
    nk = case.get("num", "float")
    if nk == "int" and case.get("whole"):
        x, y, z = float(round(x)), float(round(y)), float(round(z))          # whole metres: all three arguments Python ints
        if not math.hypot(x, y) > 0.0:
            raise Discard()
    if case["ell"] == "grs80" and case.get("defaults") == 1:
        got = cv.xyz2llh(S.as_kind(x, nk), S.as_kind(y, nk), S.as_kind(z, nk))              # GRS80 is the documented default
    elif case.get("defaults") == 2:
        got = cv.xyz2llh(x=S.as_kind(x, nk), y=S.as_kind(y, nk), z=S.as_kind(z, nk), ellipsoid=ell)
    else:
        got = cv.xyz2llh(S.as_kind(x, nk), S.as_kind(y, nk), S.as_kind(z, nk), ell)
    if not is_seq(got, 3):
        raise Fail("xyz2llh did not return (lat, lon, h)", observed=repr(got))
    lat, lon, h = got
    if not (-90.0 <= lat <= 90.0):
        raise Fail("xyz2llh latitude outside [-90, 90]", observed=got)
    if not (-180.0 <= lon <= 180.0):
        raise Fail("xyz2llh longitude outside [-180, 180]", observed=got)
    back = closed_form(lat, lon, h, a, invf)
    d = _dist(back, (x, y, z))
    metric("roundtrip_err_m", d)
    target(d, "roundtrip_err")
    if not d <= 2e-5:
        raise Fail("xyz -> llh -> xyz (closed form) does not return within 0.02 mm",
                   expected={"xyz": (x, y, z), "tol_m": 2e-5}, observed={"llh": got, "xyz_back": back, "dist_m": d})
    back2 = cv.llh2xyz(lat, lon, h, ell)
    d2 = _dist(back2, (x, y, z))
    if not d2 <= 2e-5:
        raise Fail("xyz -> llh -> llh2xyz does not return within 0.02 mm",
                   expected={"xyz": (x, y, z), "tol_m": 2e-5}, observed={"llh": got, "xyz_back": back2, "dist_m": d2})


def check_inverse_from_geodetic(case):
    a, invf = S.ellipsoid_params(case["ell"])
    x, y, z = closed_form(case["lat"], case["lon"], case["h"], a, invf)
    if not math.hypot(x, y) > 0.0:
        raise Discard()     # on the rotation axis: excluded by the statement (the closed form of lat = +-90 is ~4e-10 m off it)
    _check_inverse_xyz(x, y, z, case)


def check_inverse_direct(case):
    a, invf = S.ellipsoid_params(case["ell"])
    r = case["r_off"] + a
    p = case["p"]
    if case["mode"] == "dir":
        th = math.radians(case["elev"])
        p = r * math.cos(th)
        z = r * math.sin(th)
    else:
        # p given directly (down to 1 mm from the axis), z from the radius
        p = min(p, r)
        z = math.copysign(math.sqrt(max(r * r - p * p, 0.0)), case["zsign"])
    if not p > 0.0:
        raise Discard()
    lam = math.radians(case["az"])
    x, y = p * math.cos(lam), p * math.sin(lam)
    if case.get("plane"):
        # exactly in a coordinate plane through the axis (cos(90 deg) is 6e-17, not 0, so the azimuth route never gets there):
        # x == 0 (y of either sign), or y == +-0.0 with x of either sign (x < 0 is the +-180 deg meridian)
        x, y = {"x0+": (0.0, p), "x0-": (0.0, -p), "-x,+0": (-p, 0.0), "-x,-0": (-p, -0.0), "+x,-0": (p, -0.0)}[case["plane"]]
    # height of this point must lie in [-1e4, 4e7]: r in [a-1e4 .. a+4e7] guarantees h >= -1e4 - (a-b)?  no:
    # near the poles r = a - 1e4 is ~11 km above... fine, and near the equator exactly -1e4. Lower bound on h is
    # r - a >= -1e4; upper bound r - b <= 4e7 + 43 km.  Keep h <= 4e7 by construction of r_off <= 3.99e7.
    _check_inverse_xyz(x, y, z, case)


def _nt(case):
    return abs(case.get("lat", 1.0)) > 1e-6 or case["ell"] != "grs80"


def _classes(case):
    out = []
    e = case["ell"]
    out.append("ell:" + (e if isinstance(e, str) else "custom"))
    if "kind" in case:
        out.append("kind:" + case["kind"])
    if "lat" in case:
        lat = case["lat"]
        if lat == 0:
            out.append("equator")
            if e != "grs80":
                out.append("equator x non-grs80")
        if abs(lat) == 90:
            out.append("pole")
        elif abs(lat) > 89.999:
            out.append("near-pole")
        if case["h"] > 1e6:
            out.append("h>1000km")
        if case["h"] < 0:
            out.append("h<0")
    if case.get("mode"):
        out.append("mode:" + case["mode"])
    if case.get("plane"):
        out.append("plane:" + case["plane"])
    if case.get("num") == "int" and case.get("whole") and "kind" not in case:
        out.append("all-int xyz")
    if case.get("defaults") in (1, 2) and "kind" not in case:
        out.append("xyz2llh:" + ("default ellipsoid" if case["defaults"] == 1 and case["ell"] == "grs80" else
                                  ("keywords" if case["defaults"] == 2 else "positional")))
    out.append("num:" + case.get("num", "float"))
    return out


forward_cases = st.fixed_dictionaries({
    "lat": S.whole_sometimes(lat_s), "lon": S.whole_sometimes(lon_s), "h": S.whole_sometimes(h_s), "ell": S.ellipsoid_spec(),
    "kind": S.angle_kind, "kind2": st.one_of(st.none(), st.none(), st.none(), S.angle_kind), "num": S.num_kind, "defaults": st.booleans()})
inv_geo_cases = st.fixed_dictionaries({"lat": lat_s, "lon": lon_s, "h": h_s, "ell": S.ellipsoid_spec(), "num": S.num_kind,
                                       "whole": st.booleans(), "defaults": st.sampled_from([0, 0, 1, 2])})
inv_direct_cases = st.fixed_dictionaries({
    "mode": st.sampled_from(["dir", "dir", "p"]),
    "elev": st.one_of(S.floats(-90, 90), st.sampled_from([0.0, 45.0, -45.0, 89.9999, -89.9999])),
    "az": st.one_of(S.floats(-180, 180), st.sampled_from([0.0, 90.0, -90.0, 180.0, -180.0, 135.0, -135.0])),
    "p": st.one_of(S.log_uniform(1e-12, 6.4e6), S.log_uniform(1e-3, 6.4e6)),
    "zsign": st.sampled_from([1.0, -1.0]),
    "r_off": st.one_of(S.floats(-1e4, 3.99e7), S.floats(-1e4, 1e4), st.just(0.0)),
    "ell": S.ellipsoid_spec(), "num": S.num_kind, "whole": st.booleans(), "defaults": st.sampled_from([0, 0, 1, 2]),
    "plane": st.sampled_from([None] * 6 + ["x0+", "x0-", "-x,+0", "-x,-0", "+x,-0"])})

def _sweep_lines(rnd):
    """Latitude (-90..90), longitude (-180..180) and height (-1e4 .. 4e7 m, log-spaced above 1 m) walked on lattices, the other
    two coordinates and the ellipsoid fixed per line by the seed; two lines per axis."""
    out = []
    for rep in range(2):
        ell = "grs80" if rep == 0 else S.sweep_ellipsoid(rnd)
        lat, lon, h = rnd.uniform(-89.0, 89.0), rnd.uniform(-180.0, 180.0), rnd.choice([0.0, rnd.uniform(-1e4, 9e3), rnd.uniform(1e4, 4e7)])
        base = {"ell": ell, "num": "float", "whole": False, "defaults": 0}
        out.append((1.0, lambda f, b=base, lo=lon, hh=h: dict(b, lat=-90.0 + 180.0 * f, lon=lo, h=hh)))
        out.append((1.0, lambda f, b=base, la=lat, hh=h: dict(b, lat=la, lon=-180.0 + 360.0 * f, h=hh)))
        out.append((0.5, lambda f, b=base, la=lat, lo=lon: dict(b, lat=la, lon=lo, h=(-1e4 + 2e4 * f * 2 if f < 0.5 else
                                                                                 10.0 ** (4.0 + (f - 0.5) * 2 * 3.602)))))
    return out


def _fill_build(u):
    # heights: a third uniform in -10 .. 10 km, a third log-uniform magnitudes 1 cm .. 10 km of either sign (terrain, buildings),
    # a third log-uniform 10 km .. 40 000 km (aircraft, satellites)
    k, r = S.u_pick(u[2], [0, 1, 2, 3])
    h = [-1e4 + 2e4 * r, 10.0 ** (-2.0 + 6.0 * r), -(10.0 ** (-2.0 + 6.0 * r)), 10.0 ** (4.0 + 3.602 * r)][k]
    return {"lat": -90.0 + 180.0 * u[0], "lon": -180.0 + 360.0 * u[1], "h": h, "ell": S.u_ellipsoid(u[3], u[4]), "num": "float",
            "whole": False, "defaults": 0}


SUBCHECKS = [
    SubCheck("forward_closed_form", check_forward, strategy=forward_cases, nontrivial=_nt, classes=_classes,
             quick=4000, thorough=400000, shards_thorough=12,
             fresh=(8, 64, 3), rule="llh2xyz vs closed form, 1 micrometre; angle objects vs their decimal values, exact"),
    SubCheck("inverse_from_geodetic", check_inverse_from_geodetic, strategy=inv_geo_cases, nontrivial=_nt,
             classes=_classes, quick=3000, thorough=300000, shards_thorough=10,
             fresh=(8, 64, 3), rule="closed-form xyz of a generated (lat, lon, h) -> xyz2llh -> closed form and llh2xyz, 0.02 mm; ranges"),
    SubCheck("inverse_direct_xyz", check_inverse_direct, strategy=inv_direct_cases, nontrivial=lambda c: True,
             classes=_classes, quick=3000, thorough=300000, shards_thorough=10,
             rule="Cartesian points drawn directly (every octant, p from 1 mm, z = 0 plane) -> xyz2llh -> back, 0.02 mm"),
    SubCheck("forward_axis_sweeps", lambda c: check_forward(dict(c, kind="float", kind2=None, defaults=False)),
             enumerate=S.sweeps(303, _sweep_lines, 20000, 400000), nontrivial=_nt, classes=_classes, shards_quick=8, shards_thorough=16,
             rule="stratified sweeps of latitude, longitude and height (20 000 / 400 000 lattice points per line, two lines per axis, seeded)"),
    SubCheck("inverse_axis_sweeps", check_inverse_from_geodetic, enumerate=S.sweeps(304, _sweep_lines, 20000, 400000), nontrivial=_nt,
             classes=_classes, shards_quick=8, shards_thorough=16,
             rule="the same sweeps through xyz2llh (closed-form xyz of the lattice point -> xyz2llh -> back, 0.02 mm)"),
    SubCheck("forward_fill", lambda c: check_forward(dict(c, kind="float", kind2=None, defaults=False)),
             enumerate=S.fill(313, 5, _fill_build, 60000, 1200000), nontrivial=_nt, classes=_classes, shards_quick=8, shards_thorough=16,
             rule="low-discrepancy fill of latitude x longitude x height (uniform -10..10 km, log-uniform 1 cm..10 km of either sign, log-uniform 10..40 000 km) x ellipsoid: 60 000 / 1 200 000 points"),
    SubCheck("inverse_fill", check_inverse_from_geodetic, enumerate=S.fill(314, 5, _fill_build, 60000, 1200000), nontrivial=_nt,
             classes=_classes, shards_quick=8, shards_thorough=16, rule="the same fill through xyz2llh"),
]
