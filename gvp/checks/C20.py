"""C20 The HTTP API returns exactly what the library computes."""
import json
import math
from urllib.parse import urlencode

from hypothesis import strategies as st

from .. import repo, strategies as S
from ..core import SubCheck, Fail, Discard, HarnessError, metric
from ..oracles import angle_ref as AR

RULE = ("query strings over the domains of C04 / C05 x from_angle_type, to_angle_type in {dd, dms, absent} (9 combinations) x "
        "decimal or HP-valid inputs incl. western / southern (negative) values and the ends of the ranges (90 / 180 / 360 deg in either "
        "form), numbers written as repr, integer, +signed, exponent, trailing / leading zeros, through the Flask test client "
        "(in-process); "
        "non-trivial = at least one angle type given and different from the default")
ASSUMPTIONS = ["the JSON body is compared value for value (==) with the library call on the same float arguments, with hp2dec on the "
               "inputs iff from_angle_type = dms and dec2hp on the angular outputs iff to_angle_type = dms (distances never converted)",
               "query values are sent in several literal styles, each verified to parse back to exactly the same float (else repr is used)"]

_APP = []


def _client():
    if not _APP:
        m = repo.mod("api.app")
        _APP.append(m.app.test_client())
        _APP.append(m.app)
    return _APP[0]


def _literal(v, style):
    """A text of the float v in the given style; every style parses back to exactly v (else repr is used)."""
    r = repr(v)
    if style == "int" and float(v).is_integer() and abs(v) < 1e15:
        t = "%d" % v
    elif style == "plus" and not r.startswith("-"):
        t = "+" + r
    elif style == "exp":
        t = "%.17e" % v
    elif style == "EXP":
        t = ("%.17e" % v).upper()
    elif style == "zeros" and "." in r and "e" not in r and "E" not in r:
        t = r + "000"
    elif style == "lead0" and "e" not in r and "E" not in r and "n" not in r:
        t = ("-0" + r[1:]) if r.startswith("-") else ("0" + r)
    else:
        t = r
    return t if float(t) == v and (math.copysign(1.0, float(t)) == math.copysign(1.0, v)) else r


def _get(path, params, style="repr", order=0):
    c = _client()
    q = {k: (_literal(v, style) if isinstance(v, float) else v) for k, v in params.items() if v is not None}
    items = list(q.items())
    if order:
        # the order of the parameters in a query string carries no meaning: any permutation is the same query
        import random
        random.Random(int(order)).shuffle(items)
    url = path + "?" + urlencode(items)
    resp = c.get(url)
    if resp.status_code != 200:
        raise Fail("%s returned status %d" % (path, resp.status_code), expected=200, observed={"url": url, "body": resp.get_data(as_text=True)[:300]},
                   bucket="%s status" % path)
    if resp.mimetype != "application/json":
        raise Fail("%s did not declare its body as JSON" % path, expected="application/json", observed={"url": url, "mimetype": resp.mimetype},
                   bucket="%s content type" % path)
    try:
        return url, json.loads(resp.get_data(as_text=True))
    except ValueError:
        raise Fail("%s did not return JSON" % path, observed=resp.get_data(as_text=True)[:300], bucket="%s json" % path)


def _val(case, key):
    """The float sent for `key`: the decimal-degree member of the pair, or the valid HP literal built from the field member
    when from_angle_type is dms (every angle is generated in both forms so that call sequences can vary the types alone)."""
    x, fields = case[key]
    if case["from"] == "dms":
        neg, d, m, sn = fields
        return AR.hp_literal(bool(neg), d, m, sn, 13)
    return x


def check_vincinv(case):
    gd = repo.mod("geodepy.geodesy")
    an = repo.mod("geodepy.angles")
    args = {k: _val(case, k) for k in ("lat1", "lon1", "lat2", "lon2")}
    conv_in = an.hp2dec if case["from"] == "dms" else (lambda x: x)
    conv_out = an.dec2hp if case["to"] == "dms" else (lambda x: x)
    dd = [conv_in(args[k]) for k in ("lat1", "lon1", "lat2", "lon2")]
    # the C05 domain: not within 2 deg of antipodal
    p1, p2 = math.radians(dd[0]), math.radians(dd[2])
    dl = math.radians(dd[3] - dd[1])
    h = math.sin((p2 - p1) / 2) ** 2 + math.cos(p1) * math.cos(p2) * math.sin(dl / 2) ** 2
    if math.degrees(2 * math.asin(min(1.0, math.sqrt(h)))) > 178.0:
        raise Discard()
    dist, a12, a21 = gd.vincinv(*dd)
    want = {"ell_dist": dist, "azimuth1to2": conv_out(a12), "azimuth2to1": conv_out(a21)}
    params = dict(args)
    params["from_angle_type"] = case["from"]
    params["to_angle_type"] = case["to"]
    url, got = _get("/vincinv", params, case.get("lit", "repr"), case.get("order", 0))
    if got != want:
        raise Fail("/vincinv does not return exactly the library's values for the same arguments",
                   expected=want, observed={"url": url, "json": got}, bucket="vincinv values")


def check_vincdir(case):
    gd = repo.mod("geodepy.geodesy")
    an = repo.mod("geodepy.angles")
    args = {k: _val(case, k) for k in ("lat1", "lon1", "azimuth1to2")}
    conv_in = an.hp2dec if case["from"] == "dms" else (lambda x: x)
    conv_out = an.dec2hp if case["to"] == "dms" else (lambda x: x)
    lat2, lon2, az = gd.vincdir(conv_in(args["lat1"]), conv_in(args["lon1"]), conv_in(args["azimuth1to2"]), case["ell_dist"])
    want = {"lat2": conv_out(lat2), "lon2": conv_out(lon2), "azimuth2to1": conv_out(az)}
    params = dict(args)
    params["ell_dist"] = case["ell_dist"]
    params["from_angle_type"] = case["from"]
    params["to_angle_type"] = case["to"]
    url, got = _get("/vincdir", params, case.get("lit", "repr"), case.get("order", 0))
    if got != want:
        raise Fail("/vincdir does not return exactly the library's values for the same arguments",
                   expected=want, observed={"url": url, "json": got}, bucket="vincdir values")


def check_chain(case):
    """A traverse through the service: the point /vincdir answers with (JSON values exactly as returned, in the notation asked for)
    becomes point 2 of a /vincinv query and the start of the next /vincdir query.  The library does not wrap longitudes, so a line
    across the 180 deg meridian hands on a longitude beyond 180: still a query the library answers, hence one the endpoints answer
    with the library's values."""
    gd = repo.mod("geodepy.geodesy")
    an = repo.mod("geodepy.angles")
    t = case["to"] or "dd"
    params = {k: _val(case, k) for k in ("lat1", "lon1", "azimuth1to2")}
    params.update(ell_dist=case["ell_dist"], from_angle_type=case["from"], to_angle_type=t)
    url1, first = _get("/vincdir", params, case.get("lit", "repr"), case.get("order", 0))
    if not isinstance(first, dict) or not all(isinstance(first.get(k), (int, float)) for k in ("lat2", "lon2", "azimuth2to1")):
        raise Fail("/vincdir did not answer with numbers for lat2, lon2, azimuth2to1", observed={"url": url1, "json": first})
    conv_in = an.hp2dec if t == "dms" else (lambda x: x)
    conv_out = an.dec2hp if case["from"] == "dms" else (lambda x: x)          # the second leg answers in the first leg's input notation
    second = dict(case, **{"from": t})                                        # point 1 as held in the notation of the second query
    p1 = {k: _val(second, k) for k in ("lat1", "lon1")}
    dd = [conv_in(p1["lat1"]), conv_in(p1["lon1"]), conv_in(first["lat2"]), conv_in(first["lon2"])]
    if abs(first["lon2"]) > 180.0:
        metric("handed-on longitude beyond 180", 1)
    a, b = math.radians(dd[0]), math.radians(dd[2])
    dl = math.radians(dd[3] - dd[1])
    h = math.sin((b - a) / 2) ** 2 + math.cos(a) * math.cos(b) * math.sin(dl / 2) ** 2
    if math.degrees(2 * math.asin(min(1.0, math.sqrt(h)))) <= 178.0:
        dist, a12, a21 = gd.vincinv(*dd)
        want = {"ell_dist": dist, "azimuth1to2": conv_out(a12), "azimuth2to1": conv_out(a21)}
        q = {"lat1": p1["lat1"], "lon1": p1["lon1"], "lat2": first["lat2"], "lon2": first["lon2"], "from_angle_type": t,
             "to_angle_type": case["from"] or "dd"}
        url2, got = _get("/vincinv", q, "repr", case.get("order", 0))
        if got != want:
            raise Fail("/vincinv, asked about the point /vincdir returned, does not return exactly the library's values",
                       expected=want, observed={"url": url2, "json": got, "first": url1}, bucket="chain vincdir -> vincinv")
    lat3, lon3, az3 = gd.vincdir(conv_in(first["lat2"]), conv_in(first["lon2"]), conv_in(first["azimuth2to1"]), case["ell_dist"])
    want = {"lat2": conv_out(lat3), "lon2": conv_out(lon3), "azimuth2to1": conv_out(az3)}
    q = {"lat1": first["lat2"], "lon1": first["lon2"], "azimuth1to2": first["azimuth2to1"], "ell_dist": case["ell_dist"],
         "from_angle_type": t, "to_angle_type": case["from"] or "dd"}
    url3, got = _get("/vincdir", q, "repr", case.get("order", 0))
    if got != want:
        raise Fail("/vincdir, started from the point and azimuth /vincdir returned, does not return exactly the library's values",
                   expected=want, observed={"url": url3, "json": got, "first": url1}, bucket="chain vincdir -> vincdir")


def check_index(case):
    c = _client()
    app = _APP[1]
    resp = c.get("/")
    if resp.status_code != 200:
        raise Fail("index route returned status %d" % resp.status_code, expected=200, observed=resp.status_code)
    body = resp.get_data(as_text=True)
    rules = [r.rule for r in app.url_map.iter_rules() if r.endpoint != "static"]
    for need in ("/vincinv", "/vincdir", "/"):
        if need not in rules:
            raise Fail("endpoint %s is no longer routed" % need, expected=need, observed=rules)
    try:
        listed = set(_strings(json.loads(body)))
        missing = [r for r in rules if r not in listed]
    except ValueError:
        # not JSON: any textual listing that names every endpoint ("/" itself cannot be told from the others' first character)
        missing = [r for r in rules if r != "/" and r not in body]
    if missing:
        raise Fail("the index route does not list every endpoint", expected=rules, observed={"body": body, "missing": missing})


def _strings(x):
    if isinstance(x, str):
        yield x
    elif isinstance(x, dict):
        for k, v in x.items():
            yield from _strings(k)
            yield from _strings(v)
    elif isinstance(x, (list, tuple)):
        for v in x:
            yield from _strings(v)


def enumerate_index(tier, seed, shard, nshards):
    if shard == 0:
        yield {"route": "/"}
        yield {"route": "/ (again)"}


# ------------------------------------------------------------------------------------------------ generators

atype = st.sampled_from(["dd", "dms", None])


def _hp_fields(dmax, signed=True):
    return st.tuples(st.booleans() if signed else st.just(False), st.integers(0, dmax), st.integers(0, 59),
                     st.one_of(st.integers(0, 59).map(lambda s: s * 10 ** 9), st.integers(0, 60 * 10 ** 9 - 1),
                               st.sampled_from([0, 59999999999, 1]))).map(list)


def _angle(lim, dmax, signed=True, extra=()):
    x = st.one_of(S.floats(-lim if signed else 0.0, lim), st.sampled_from(list(extra) + [0.0]),
                  st.integers(-int(lim) if signed else 0, int(lim)).map(float))
    # HP fields, including the end of the range itself (90 / 180 / 360 deg 00' 00")
    f = st.one_of(_hp_fields(dmax, signed), _hp_fields(dmax, signed), _hp_fields(dmax, signed),
                  st.tuples(st.booleans() if signed else st.just(False), st.just(dmax + 1), st.just(0), st.just(0)).map(list),
                  st.tuples(st.booleans() if signed else st.just(False), st.integers(0, dmax), st.integers(0, 59), st.just(0)).map(list))
    return st.tuples(x, f).map(list)


order_s = st.one_of(st.just(0), st.integers(1, 10 ** 6))       # canonical order of the query parameters, or a permutation of it
lit_s = st.sampled_from(["repr", "repr", "repr", "int", "int", "plus", "exp", "EXP", "zeros", "lead0"])


@st.composite
def inv_cases(draw):
    c = {"from": draw(atype), "to": draw(atype), "lit": draw(lit_s), "order": draw(order_s)}
    c["lat1"] = draw(_angle(90.0, 89, extra=[-37.8, 45.0, 90.0, -90.0]))
    c["lon1"] = draw(_angle(180.0, 179, extra=[144.9, -179.5, 179.5]))
    c["lat2"] = draw(_angle(90.0, 89, extra=[-37.8]))
    c["lon2"] = draw(_angle(180.0, 179, extra=[144.9, 179.9]))
    if draw(st.integers(0, 3)) == 0:      # short line: second point next to the first (in both representations)
        f = list(c["lat1"][1])
        if f[1] < 90:        # (90 deg 00' 00" is the end of the range: nothing may be added to it)
            f[3] = (f[3] + draw(st.integers(1, 10 ** 9))) % (60 * 10 ** 9)
        c["lat2"] = [max(-90.0, min(90.0, c["lat1"][0] + draw(S.floats(-0.5, 0.5)))), f]
        c["lon2"] = [max(-180.0, min(180.0, c["lon1"][0] + draw(S.floats(-0.5, 0.5)))), list(c["lon1"][1])]
    return c


@st.composite
def dir_cases(draw, near_180=False):
    c = {"from": draw(atype), "to": draw(atype), "lit": draw(lit_s), "order": draw(order_s),
         "ell_dist": draw(st.one_of(S.floats(0.0, 2e7), S.log_uniform(1e-3, 2e7), st.sampled_from([0.0, 54972.271, 1e7]),
                                    st.integers(0, 20000000).map(float)))}
    c["lat1"] = draw(_angle(90.0, 89, extra=[-37.57037203, 90.0]))
    c["lon1"] = draw(_angle(180.0, 179, extra=[144.25295244, -180.0]))
    c["azimuth1to2"] = draw(_angle(360.0, 359, signed=False, extra=[90.0, 306.520537, 360.0]))
    if near_180 and draw(st.integers(0, 2)) == 0:
        # a start point next to the 180 deg meridian (either side), so that lines cross it
        sg = draw(st.booleans())
        x = draw(S.floats(178.0, 180.0))
        c["lon1"] = [-x if sg else x, [sg, draw(st.integers(178, 179)), draw(st.integers(0, 59)), draw(st.integers(0, 60 * 10 ** 9 - 1))]]
        c["lat1"] = [max(-80.0, min(80.0, c["lat1"][0])), [c["lat1"][1][0], min(c["lat1"][1][1], 79)] + list(c["lat1"][1][2:])]
    return c


def _pair(x, dmax):
    """[decimal degrees, HP fields of (nearly) the same angle] as the generated cases carry them."""
    a = abs(x)
    d = min(int(a), dmax)
    m = min(int((a - d) * 60.0), 59)
    sn = min(max(int(round(((a - d) * 60.0 - m) * 60.0 * 1e9)), 0), 60 * 10 ** 9 - 1)
    return [x, [x < 0, d, m, sn]]


_TYPES = ["dd", "dms", None]


def _inv_fill(u):
    f, r = S.u_pick(u[4], _TYPES)
    t, r = S.u_pick(r, _TYPES)
    return {"from": f, "to": t, "lit": "repr", "order": int(r * 1000) % 7, "lat1": _pair(-90.0 + 180.0 * u[0], 89), "lon1": _pair(-180.0 + 360.0 * u[1], 179),
            "lat2": _pair(-90.0 + 180.0 * u[2], 89), "lon2": _pair(-180.0 + 360.0 * u[3], 179)}


def _dir_fill(u):
    f, r = S.u_pick(u[4], _TYPES)
    t, r = S.u_pick(r, _TYPES)
    dist = 2e7 * u[3] if r < 0.5 else 10.0 ** (-3.0 + 10.301 * u[3])
    return {"from": f, "to": t, "lit": "repr", "order": int(r * 1000) % 7, "ell_dist": dist, "lat1": _pair(-90.0 + 180.0 * u[0], 89),
            "lon1": _pair(-180.0 + 360.0 * u[1], 179), "azimuth1to2": _pair(360.0 * u[2], 359)}


def _nt(case):
    return (case["from"] not in (None, "dd")) or (case["to"] not in (None, "dd"))


def _classes(case):
    out = ["from:%s" % case["from"], "to:%s" % case["to"]]
    lat = case["lat1"]
    south = lat[1][0] if case["from"] == "dms" else lat[0] < 0
    out.append("southern" if south else "northern")
    out.append("literal:" + case.get("lit", "repr"))
    out.append("parameters in canonical order" if not case.get("order") else "parameters permuted")
    return out


SUBCHECKS = [
    SubCheck("vincinv_endpoint", check_vincinv, strategy=inv_cases(), nontrivial=_nt, classes=_classes, quick=1500, thorough=60000,
             shards_quick=3, shards_thorough=12, seq_groups=[["from"], ["to"], ["lat2", "lon2"], ["lit"]],
             fresh=(8, 64, 3), rule="GET /vincinv == vincinv on the same arguments, HP conversion iff dms, all 9 type combinations; sequences vary only the types"),
    SubCheck("vincdir_endpoint", check_vincdir, strategy=dir_cases(), nontrivial=_nt, classes=_classes, quick=1500, thorough=60000,
             shards_quick=3, shards_thorough=12, seq_groups=[["from"], ["to"], ["ell_dist"], ["lit"]],
             fresh=(8, 64, 3), rule="GET /vincdir == vincdir on the same arguments, HP conversion iff dms, all 9 type combinations"),
    SubCheck("vincinv_fill", check_vincinv, enumerate=S.fill(2020, 5, _inv_fill, 12000, 240000), nontrivial=_nt, classes=_classes,
             shards_quick=12, shards_thorough=16,
             rule="low-discrepancy fill of both points x the nine angle-type combinations: 12 000 / 240 000 requests (pairs beyond 178 deg discarded)"),
    SubCheck("vincdir_fill", check_vincdir, enumerate=S.fill(2021, 5, _dir_fill, 12000, 240000), nontrivial=_nt, classes=_classes,
             shards_quick=12, shards_thorough=16,
             rule="low-discrepancy fill of start point x azimuth x distance (uniform / log-uniform) x the nine angle-type combinations: 12 000 / 240 000 requests"),
    SubCheck("traverse_through_the_service", check_chain, strategy=dir_cases(near_180=True), nontrivial=_nt, classes=_classes, quick=1200,
             thorough=60000, shards_quick=3, shards_thorough=12,
             rule="the JSON answer of /vincdir handed on as point 2 of /vincinv and as start + azimuth of the next /vincdir, in the notation "
                  "it was returned in; a third of the lines start within 2 deg of the 180 deg meridian, so handed-on longitudes exceed 180"),
    SubCheck("index_route", check_index, enumerate=enumerate_index, shards_quick=1, shards_thorough=1, exhaustive="both",
             rule="GET / lists every routed endpoint (complete: the URL map is enumerated)"),
]
