"""Reference similarity (Helmert) transformation, independent of the code under test.

X' = t + (1 + s 1e-6) (I + W(r)) X,   W(r) = [[0, rz, -ry], [-rz, 0, rx], [ry, -rx, 0]],  r in arc-seconds -> radians
(the sign convention of the Australian technical manuals: GDA2020 Technical Manual eq. for the 7-parameter
similarity transformation).  Evaluated exactly in fractions.Fraction (pi to 50 digits) for the 1 micrometre claim.
"""
import math
from fractions import Fraction

import numpy as np

from ..core import HarnessError

PI = Fraction("3.14159265358979323846264338327950288419716939937510")
ARCSEC = PI / 648000


def apply_exact(p, X):
    """p = (tx, ty, tz, sc_ppm, rx, ry, rz arcsec) as floats (taken exactly); X = (x, y, z) floats -> 3 Fractions."""
    tx, ty, tz, sc, rx, ry, rz = [Fraction(v) for v in p]
    x, y, z = [Fraction(v) for v in X]
    s = 1 + sc / 1000000
    rx, ry, rz = rx * ARCSEC, ry * ARCSEC, rz * ARCSEC
    return (tx + s * (x + rz * y - ry * z),
            ty + s * (-rz * x + y + rx * z),
            tz + s * (ry * x - rx * y + z))


def apply_float(p, X):
    return tuple(float(v) for v in apply_exact(p, X))


def second_order_bound(p, X):
    """Norm bound on T^-1-by-negation o T - identity: (s^2 + w^2 + s^2 w^2)|X| + (s + w + s w)|t|."""
    tx, ty, tz, sc, rx, ry, rz = p
    s = abs(sc) * 1e-6
    w = math.sqrt(rx * rx + ry * ry + rz * rz) * math.pi / 648000.0
    nx = math.sqrt(sum(v * v for v in X))
    nt = math.sqrt(tx * tx + ty * ty + tz * tz)
    return (s * s + w * w + s * s * w * w) * nx + (s + w + s * w) * nt


def matrices(p):
    tx, ty, tz, sc, rx, ry, rz = p
    k = math.pi / 648000.0
    rx, ry, rz = rx * k, ry * k, rz * k
    R = np.array([[1.0, rz, -ry], [-rz, 1.0, rx], [ry, -rx, 1.0]])
    return 1.0 + sc * 1e-6, R


def propagate(p, sd, X, V):
    """First-order propagation of the input covariance V (3x3) and the parameter standard deviations
    sd = (sd_tx, sd_ty, sd_tz [m], sd_sc [ppm], sd_rx, sd_ry, sd_rz [arcsec]) through X' = t + s R X."""
    s, R = matrices(p)
    X = np.array(X, dtype=float).reshape(3)
    V = np.array(V, dtype=float)
    S = s * R
    out = S @ V @ S.T
    k = math.pi / 648000.0
    g_sc = (R @ X) * 1e-6
    dW = [np.array([[0, 0, 0], [0, 0, 1.0], [0, -1.0, 0]]),
          np.array([[0, 0, -1.0], [0, 0, 0], [1.0, 0, 0]]),
          np.array([[0, 1.0, 0], [-1.0, 0, 0], [0, 0, 0]])]
    out = out + (sd[3] ** 2) * np.outer(g_sc, g_sc)
    for i in range(3):
        g = s * (dW[i] @ X) * k
        out = out + (sd[4 + i] ** 2) * np.outer(g, g)
    out = out + np.diag([sd[0] ** 2, sd[1] ** 2, sd[2] ** 2])
    return out


def selftest():
    # the propagation's partials against central differences of the exact formula (the formula is bilinear)
    p = (0.06155, -0.01087, -0.04019, -0.009994, -0.0394924, -0.0327221, -0.0328979)
    X = (-4052051.0, 4212836.0, -2545106.0)
    s, R = matrices(p)
    for i, h in ((3, 1e-3), (4, 1e-3), (5, 1e-3), (6, 1e-3)):
        pp = list(p)
        pm = list(p)
        pp[i] += h
        pm[i] -= h
        d = (np.array(apply_float(pp, X)) - np.array(apply_float(pm, X))) / (2 * h)
        sd = [0.0] * 7
        sd[i] = 1.0
        V = propagate(p, sd, X, np.zeros((3, 3)))
        if not np.allclose(V, np.outer(d, d), rtol=1e-6, atol=1e-12):
            raise HarnessError("helmert reference self-test failed for parameter %d" % i)
    # published GDA94 -> GDA2020 example (GDA2020 Technical Manual): Alice Springs ALIC
    got = apply_float(p, (-4052051.7643, 4212836.2017, -2545106.0245))
    want = (-4052052.7379, 4212835.9897, -2545104.5898)
    if max(abs(a - b) for a, b in zip(got, want)) > 2e-4:
        raise HarnessError("helmert reference self-test (technical manual example) failed: %r" % (got,))
