"""Exact direct geodesic on an ellipsoid of revolution by quadrature of the geodesic integrals on the auxiliary
sphere (Bessel / Helmert formulation).  Shares no series with Vincenty's formulae.

    s   = b * int_{sigma1}^{sigma2} sqrt(1 + k^2 sin^2 sigma) d sigma,          k^2 = e'^2 cos^2 alpha0
    lam = (omega2 - omega1) - f sin alpha0 * int (2 - f) / (1 + (1 - f) sqrt(1 + k^2 sin^2 sigma)) d sigma

Both integrals by composite 24-point Gauss-Legendre on panels <= pi/4 (integrands are analytic and nearly constant:
error far below 1e-12 relative).  sigma2 is found by Newton.  Start-point quantities are carried as (sin, cos) pairs
so the poles are handled as the limit along the meridian of lon1.

Reproduces Karney (2013) Table 2: lat1 = 40, az1 = 30, s = 10 000 km on WGS84 ->
lat2 = 41.79331020506, lon2 = 137.84490004377, az2 = 149.09016931807.
"""
import math

import numpy as np

from ..core import HarnessError

_X, _W = np.polynomial.legendre.leggauss(24)
_X = [float(x) for x in _X]
_W = [float(w) for w in _W]


def _quad(fn, a, b):
    n = max(1, int(math.ceil(abs(b - a) / (math.pi / 4))))
    h = (b - a) / n
    tot = 0.0
    for i in range(n):
        mid = a + (i + 0.5) * h
        half = h / 2
        s = 0.0
        for x, w in zip(_X, _W):
            s += w * fn(mid + half * x)
        tot += s * half
    return tot


def direct(lat1, lon1, az1, s12, a, invf):
    """-> (lat2, lon2, az2) degrees; az2 is the forward azimuth of the geodesic at point 2; lon2 is not normalised."""
    f = 1.0 / invf
    b = a * (1.0 - f)
    ep2 = (a * a - b * b) / (b * b)
    phi1 = math.radians(lat1)
    al1 = math.radians(az1)
    sb1 = (1.0 - f) * math.sin(phi1)
    cb1 = math.cos(phi1)
    if abs(lat1) == 90.0:
        cb1 = 0.0
    n_ = math.hypot(sb1, cb1)
    sb1 /= n_
    cb1 /= n_
    sa1 = math.sin(al1)
    ca1 = math.cos(al1)
    # exact values at the cardinal directions (sin(pi) is 1.2e-16, not 0)
    azm = az1 % 360.0
    if azm == 0.0:
        sa1, ca1 = 0.0, 1.0
    elif azm == 90.0:
        sa1, ca1 = 1.0, 0.0
    elif azm == 180.0:
        sa1, ca1 = 0.0, -1.0
    elif azm == 270.0:
        sa1, ca1 = -1.0, 0.0
    sa0 = sa1 * cb1
    ca0 = math.hypot(ca1, sa1 * sb1)
    ssig1, csig1 = sb1, ca1 * cb1
    if ssig1 == 0.0 and csig1 == 0.0:
        csig1 = 1.0
    hh = math.hypot(ssig1, csig1)
    ssig1 /= hh
    csig1 /= hh
    sig1 = math.atan2(ssig1, csig1)
    om1 = math.atan2(sa1 * sb1, ca1)      # = atan2(sa0 ssig1, csig1) away from the poles; its limit along lon1 at a pole
    k2 = ep2 * ca0 * ca0

    def i1(s):
        return math.sqrt(1.0 + k2 * math.sin(s) ** 2)

    sig2 = sig1 + s12 / b
    for _ in range(40):
        F = b * _quad(i1, sig1, sig2) - s12
        d = F / (b * i1(sig2))
        sig2 -= d
        if abs(d) < 1e-16:
            break
    else:
        if not abs(d) < 1e-13:
            raise HarnessError("geodesic oracle: Newton did not converge")
    ss2 = math.sin(sig2)
    cs2 = math.cos(sig2)
    sb2 = ca0 * ss2
    cb2 = math.hypot(sa0, ca0 * cs2)
    phi2 = math.atan2(sb2, (1.0 - f) * cb2)
    al2 = math.atan2(sa0, ca0 * cs2)
    om2 = math.atan2(sa0 * ss2, cs2)

    def i3(s):
        return (2.0 - f) / (1.0 + (1.0 - f) * math.sqrt(1.0 + k2 * math.sin(s) ** 2))

    dom = om2 - om1          # longitudes are compared modulo 360 by every caller
    lam12 = dom - f * sa0 * _quad(i3, sig1, sig2)
    return math.degrees(phi2), lon1 + math.degrees(lam12), math.degrees(al2)


def reduced_length(lat1, az1, s12, a, invf):
    """m12 to about 1 % (spherical approximation with the mean radius): only used to scale azimuth tolerances."""
    f = 1.0 / invf
    r = a * (1.0 - f / 3.0)
    return abs(r * math.sin(s12 / r))


def metric_distance(lat_a, lon_a, lat_b, lon_b, a, invf):
    """Local metric distance between two nearby points: sqrt((M dphi)^2 + (N cos phi dlam)^2), dlam modulo 360."""
    f = 1.0 / invf
    e2 = f * (2.0 - f)
    phi = math.radians((lat_a + lat_b) / 2.0)
    s = math.sin(phi)
    w = math.sqrt(1.0 - e2 * s * s)
    M = a * (1.0 - e2) / w ** 3
    N = a / w
    dlon = (lon_b - lon_a + 180.0) % 360.0 - 180.0
    dn = M * math.radians(lat_b - lat_a)
    de = N * math.cos(phi) * math.radians(dlon)
    # near a pole the longitude is ill-defined: use the chord in the polar tangent plane instead
    if abs(lat_a) > 89.0 or abs(lat_b) > 89.0:
        ra = M * math.radians(90.0 - abs(lat_a))
        rb = M * math.radians(90.0 - abs(lat_b))
        if (lat_a > 0) != (lat_b > 0):
            return float("inf")
        dl = math.radians(dlon)
        return math.sqrt((ra - rb) ** 2 + 4.0 * ra * rb * math.sin(dl / 2.0) ** 2)
    return math.hypot(dn, de)


def selftest():
    la, lo, az = direct(40.0, 0.0, 30.0, 1e7, 6378137.0, 298.257223563)
    if abs(la - 41.79331020506) > 2e-11 or abs(lo - 137.84490004377) > 2e-11 or abs(az - 149.09016931807) > 2e-11:
        raise HarnessError("geodesic oracle self-test (Karney Table 2) failed: %r" % ((la, lo, az),))
    # equatorial: dlon = s / a exactly
    la, lo, az = direct(0.0, 10.0, 90.0, 1234567.0, 6378137.0, 298.257222101)
    if abs(la) > 1e-13 or abs(lo - 10.0 - math.degrees(1234567.0 / 6378137.0)) > 1e-12 or abs(az - 90.0) > 1e-12:
        raise HarnessError("geodesic oracle self-test (equator) failed: %r" % ((la, lo, az),))
    # meridional: arc length = meridian integral in geodetic latitude
    a, invf = 6378160.0, 298.25
    f = 1 / invf
    e2 = f * (2 - f)
    arc = _quad(lambda p: a * (1 - e2) / (1 - e2 * math.sin(p) ** 2) ** 1.5, math.radians(-10.0), math.radians(55.0))
    la, lo, az = direct(-10.0, 33.0, 0.0, arc, a, invf)
    if abs(la - 55.0) > 1e-12 or abs(lo - 33.0) > 1e-12 or abs(az) > 1e-12:
        raise HarnessError("geodesic oracle self-test (meridian) failed: %r" % ((la, lo, az),))
    # over the pole: continues on the opposite meridian
    arc2 = _quad(lambda p: a * (1 - e2) / (1 - e2 * math.sin(p) ** 2) ** 1.5, math.radians(80.0), math.radians(90.0))
    la, lo, az = direct(80.0, 20.0, 0.0, 2 * arc2, a, invf)
    if abs(la - 80.0) > 1e-11 or abs(((lo - 200.0) + 180) % 360 - 180) > 1e-9 or abs(abs(az) - 180.0) > 1e-9:
        raise HarnessError("geodesic oracle self-test (pole crossing) failed: %r" % ((la, lo, az),))
