"""Exact semantics of the nine angle notations (DESIGN 4.4): every value gets a denotation in arc-seconds as a
fractions.Fraction, independent of the conversion code under test.

  rad   float radians                  D = x * 648000 / pi            (pi to 50 digits)
  dec   float decimal degrees          D = x * 3600                   (x taken exactly: a float is a dyadic rational)
  gon   float gradians                 D = x * 3240
  hp    float DDD.MMSSssss             D from the fields of the decimal rendering rounded half-even to 13 places
                                       (12 places from 512 degrees, where a double cannot hold a 13th); invalid if a
                                       minutes or seconds field is >= 60
  deca / hpa / gona                    the object's stored float, as above
  dms   DMSAngle(degree, minute, second, positive)   D = +-(3600 d + 60 m + s),  s taken exactly
  ddm   DDMAngle(degree, minute, positive)           D = +-(3600 d + 60 m)
"""
import math
from decimal import Decimal, ROUND_HALF_EVEN, Context
_CTX = Context(prec=60, rounding=ROUND_HALF_EVEN)        # the oracle's own context: never the process-wide one (see runner: environments)
from fractions import Fraction

from .. import repo
from ..core import HarnessError

PI = Fraction("3.14159265358979323846264338327950288419716939937510")
TOL = Fraction(1, 10 ** 8)           # arc-seconds
NOTATIONS = ["rad", "dec", "hp", "gon", "deca", "hpa", "gona", "dms", "ddm"]


class InvalidHP(Exception):
    pass


def hp_fields(h):
    """(negative?, degrees, minutes, seconds as Fraction) of an HP float under the rendering rule above."""
    h = float(h)
    places = 13 if abs(h) < 512 else 12
    q = Decimal(abs(h)).quantize(Decimal(1).scaleb(-places, _CTX), rounding=ROUND_HALF_EVEN, context=_CTX)
    digits = format(q, "f")
    ip, fp = digits.split(".")
    fp = fp.ljust(13, "0")
    return (h < 0 or (h == 0 and math.copysign(1.0, h) < 0)), int(ip), int(fp[:2]), Fraction(int(fp[2:]), 10 ** 9)


def hp_seconds(h):
    if abs(h) >= 8192:
        # a double holds fewer than 12 decimals from 8192 on: this reader (and the notation) is not defined there;
        # the properties stop at 720 deg (validated independently up to 8191 deg)
        # the harness never generates such a value (the properties stop at 720 deg), so it can only be something the library
        # returned for an angle below 720 deg: not that angle, whatever its digits say
        raise InvalidHP("HP value %r is beyond 8192 degrees: it cannot denote an angle of the properties' domain" % (h,))
    neg, d, m, s = hp_fields(h)
    if m >= 60 or s >= 60:
        raise InvalidHP("HP value %r has fields %d deg %d min %s sec" % (h, d, m, float(s)))
    v = 3600 * d + 60 * m + s
    return -v if neg else v


def hp_literal(neg, d, m, s_nano, places=13):
    """The float a user gets by writing the HP value d.mmss... with the given number of decimals."""
    frac = "%02d%011d" % (m, s_nano)          # mm + ss + 9 decimals of seconds = 13 digits
    txt = "%d.%s" % (d, frac[:places])
    return -float(txt) if neg else float(txt)


def denote(notation, v):
    """Exact arc-seconds (Fraction) denoted by value v held in `notation`."""
    if notation == "rad":
        return Fraction(float(v)) * 648000 / PI
    if notation == "dec":
        return Fraction(float(v)) * 3600
    if notation == "gon":
        return Fraction(float(v)) * 3240
    if notation == "hp":
        return hp_seconds(v)
    if notation == "deca":
        return Fraction(float(v.dec_angle)) * 3600
    if notation == "hpa":
        return hp_seconds(v.hp_angle)
    if notation == "gona":
        return Fraction(float(v.gon_angle)) * 3240
    if notation == "dms":
        x = 3600 * int(v.degree) + 60 * int(v.minute) + Fraction(float(v.second))
        return x if v.positive else -x
    if notation == "ddm":
        x = 3600 * int(v.degree) + 60 * Fraction(float(v.minute))
        return x if v.positive else -x
    raise HarnessError("unknown notation %r" % notation)


def type_ok(notation, v):
    a = repo.mod("geodepy.angles")
    if notation in ("rad", "dec", "hp", "gon"):
        import numpy as _np
        return isinstance(v, (float, _np.floating)) and not isinstance(v, (a.DECAngle, a.GONAngle))
    return type(v) is {"deca": a.DECAngle, "hpa": a.HPAngle, "gona": a.GONAngle, "dms": a.DMSAngle, "ddm": a.DDMAngle}[notation]


def edges():
    """The complete table of direct conversions: (from, to, label, callable(value) -> value)."""
    a = repo.mod("geodepy.angles")
    E = []

    def add(frm, to, label, fn):
        E.append((frm, to, label, fn))
    # numbers -> anything, by module-level functions
    add("dec", "hp", "dec2hp", a.dec2hp)
    add("dec", "hpa", "dec2hpa", a.dec2hpa)
    add("dec", "gon", "dec2gon", a.dec2gon)
    add("dec", "gona", "dec2gona", a.dec2gona)
    add("dec", "dms", "dec2dms", a.dec2dms)
    add("dec", "ddm", "dec2ddm", a.dec2ddm)
    add("dec", "rad", "math.radians", math.radians)
    add("dec", "deca", "DECAngle()", a.DECAngle)
    add("rad", "dec", "math.degrees", math.degrees)
    add("hp", "dec", "hp2dec", a.hp2dec)
    add("hp", "deca", "hp2deca", a.hp2deca)
    add("hp", "rad", "hp2rad", a.hp2rad)
    add("hp", "gon", "hp2gon", a.hp2gon)
    add("hp", "gona", "hp2gona", a.hp2gona)
    add("hp", "dms", "hp2dms", a.hp2dms)
    add("hp", "ddm", "hp2ddm", a.hp2ddm)
    add("hp", "hpa", "HPAngle()", a.HPAngle)
    add("gon", "dec", "gon2dec", a.gon2dec)
    add("gon", "deca", "gon2deca", a.gon2deca)
    add("gon", "hp", "gon2hp", a.gon2hp)
    add("gon", "hpa", "gon2hpa", a.gon2hpa)
    add("gon", "rad", "gon2rad", a.gon2rad)
    add("gon", "dms", "gon2dms", a.gon2dms)
    add("gon", "ddm", "gon2ddm", a.gon2ddm)
    add("gon", "gona", "GONAngle()", a.GONAngle)
    # objects -> anything, by methods
    meth = {"rad": "rad", "dec": "dec", "deca": "deca", "hp": "hp", "hpa": "hpa", "gon": "gon", "gona": "gona",
            "dms": "dms", "ddm": "ddm"}
    have = {"deca": ["rad", "dec", "hp", "hpa", "gon", "gona", "dms", "ddm"],
            "hpa": ["rad", "dec", "deca", "hp", "gon", "gona", "dms", "ddm"],
            "gona": ["rad", "dec", "deca", "hp", "hpa", "gon", "dms", "ddm"],
            "dms": ["rad", "dec", "deca", "hp", "hpa", "gon", "gona", "ddm"],
            "ddm": ["rad", "dec", "deca", "hp", "hpa", "gon", "gona", "dms"]}
    for frm, tos in have.items():
        for to in tos:
            add(frm, to, "%s.%s()" % (frm, meth[to]), (lambda name: (lambda obj: getattr(obj, name)()))(meth[to]))
    return E


def selftest():
    if hp_seconds(123.4556789) != 123 * 3600 + 45 * 60 + Fraction("56.789"):
        raise HarnessError("angle oracle: hp parse")
    if hp_seconds(-0.0001) != -1 or hp_seconds(259.02) != 259 * 3600 + 120 or hp_seconds(512.06) != 512 * 3600 + 360:
        raise HarnessError("angle oracle: hp parse (binary noise)")
    for bad in (0.6, 12.0060, 359.5960, 0.0099999):
        try:
            hp_seconds(bad)
        except InvalidHP:
            continue
        raise HarnessError("angle oracle accepted invalid HP %r" % bad)
    if hp_literal(True, 12, 34, 56123456789) != -12.3456123456789:
        raise HarnessError("angle oracle: hp literal")
    if abs(denote("rad", math.pi) - 648000) > Fraction(1, 10 ** 9) or denote("gon", 100.0) != 324000:
        raise HarnessError("angle oracle: rad/gon")
