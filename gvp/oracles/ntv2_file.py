"""NTv2 (.gsb) writer and analytic polynomial fields, written from the format description (little-endian):

  overview: 11 records of 16 bytes: NUM_OREC, NUM_SREC, NUM_FILE (int32 + 4 pad), GS_TYPE, VERSION, SYSTEM_F, SYSTEM_T
            (8 chars), MAJOR_F, MINOR_F, MAJOR_T, MINOR_T (float64)
  per sub-grid: 11 records: SUB_NAME, PARENT, CREATED, UPDATED (8 chars), S_LAT, N_LAT, E_LONG, W_LONG, LAT_INC, LONG_INC
            (float64, arc-seconds, longitudes positive west), GS_COUNT (int32 + pad); then GS_COUNT nodes of 4 float32
            (lat shift, lon shift, lat accuracy, lon accuracy), row-major from the south-east corner, longitude increasing west
  trailer: 'END     ' + 8 bytes

A field is a polynomial in the integer cell coordinates (u = row, v = column) with dyadic coefficients, checked to be
exactly representable in float32 at every node, so the true value at any query is known in double precision.
"""
import struct

from ..core import HarnessError


def _rec(key, val):
    k = key.ljust(8).encode("ascii")
    if isinstance(val, int):
        return k + struct.pack("<i", val) + b"\x00" * 4
    if isinstance(val, float):
        return k + struct.pack("<d", val)
    return k + str(val).ljust(8).encode("ascii")[:8]


# polynomial terms (power of u, power of v) in the order of the coefficient list
TERMS = [(0, 0), (1, 0), (0, 1), (1, 1), (2, 0), (0, 2), (2, 1), (1, 2), (2, 2), (3, 0), (0, 3), (3, 3)]


def poly(coef, u, v):
    s = 0.0
    for c, (i, j) in zip(coef, TERMS):
        if c:
            s += c * (u ** i) * (v ** j)
    return s


def poly_grad(coef, u, v):
    fu = fv = 0.0
    for c, (i, j) in zip(coef, TERMS):
        if not c:
            continue
        if i:
            fu += c * i * (u ** (i - 1)) * (v ** j)
        if j:
            fv += c * j * (u ** i) * (v ** (j - 1))
    return fu, fv


def degree(coef):
    """'linear' (degree <= 1 in total), 'bilinear' (uv term), 'biquadratic', 'bicubic'"""
    mx = 0
    kind = "constant"
    for c, (i, j) in zip(coef, TERMS):
        if not c:
            continue
        if max(i, j) >= 3:
            return "bicubic"
        if max(i, j) == 2:
            kind = "biquadratic"
        elif i == 1 and j == 1 and kind != "biquadratic":
            kind = "bilinear"
        elif kind == "constant":
            kind = "linear"
    return kind


def f32_exact(x):
    return struct.unpack("<f", struct.pack("<f", x))[0] == x


def rows_cols(sg):
    return sg["nrows"], sg["ncols"]


def extents(sg):
    n_lat = round(sg["s_lat"] + (sg["nrows"] - 1) * sg["lat_inc"], 3)
    w_long = round(sg["e_long"] + (sg["ncols"] - 1) * sg["long_inc"], 3)
    return sg["s_lat"], n_lat, sg["e_long"], w_long


def sanitise(sg):
    """Drop (zero) the highest-degree coefficients of a field until every node value is exact in float32."""
    fields = []
    for coef in sg["fields"]:
        coef = list(coef) + [0.0] * (len(TERMS) - len(coef))
        for _ in range(len(TERMS)):
            ok = all(f32_exact(poly(coef, r, c)) for r in (0, 1, sg["nrows"] - 1) for c in (0, 1, sg["ncols"] - 1)) and \
                all(f32_exact(poly(coef, r, c)) for r in range(sg["nrows"]) for c in range(sg["ncols"]))
            if ok:
                break
            for k in range(len(TERMS) - 1, -1, -1):
                if coef[k]:
                    coef[k] = 0.0
                    break
        fields.append(coef)
    out = dict(sg)
    out["fields"] = fields
    return out


def write(path, subgrids, gs_type="SECONDS", version="NTv2.0", system_f="AGD66", system_t="GDA94",
          major_f=6378160.0, minor_f=6356774.719, major_t=6378137.0, minor_t=6356752.314):
    with open(path, "wb") as f:
        f.write(_rec("NUM_OREC", 11) + _rec("NUM_SREC", 11) + _rec("NUM_FILE", len(subgrids)) + _rec("GS_TYPE", gs_type) +
                _rec("VERSION", version) + _rec("SYSTEM_F", system_f) + _rec("SYSTEM_T", system_t) + _rec("MAJOR_F", major_f) +
                _rec("MINOR_F", minor_f) + _rec("MAJOR_T", major_t) + _rec("MINOR_T", minor_t))
        for sg in subgrids:
            s_lat, n_lat, e_long, w_long = extents(sg)
            nr, nc = rows_cols(sg)
            f.write(_rec("SUB_NAME", sg["name"]) + _rec("PARENT", sg["parent"]) + _rec("CREATED", sg.get("created", "01012020")) +
                    _rec("UPDATED", sg.get("updated", "02012020")) + _rec("S_LAT", float(s_lat)) + _rec("N_LAT", float(n_lat)) +
                    _rec("E_LONG", float(e_long)) + _rec("W_LONG", float(w_long)) + _rec("LAT_INC", float(sg["lat_inc"])) +
                    _rec("LONG_INC", float(sg["long_inc"])) + _rec("GS_COUNT", nr * nc))
            for r in range(nr):
                for c in range(nc):
                    vals = [poly(coef, r, c) for coef in sg["fields"]]
                    for v in vals:
                        if not f32_exact(v):
                            raise HarnessError("ntv2 writer: node value %r is not exact in float32" % v)
                    f.write(struct.pack("<4f", *vals))
        f.write(b"END     " + struct.pack("<d", 0.0))


def locate(subgrids, lat_sec, lonw_sec):
    """Index of the sub-grid an NTv2 reader must use (finest latitude spacing among those containing the point), or None."""
    best = None
    for i, sg in enumerate(subgrids):
        s_lat, n_lat, e_long, w_long = extents(sg)
        if s_lat <= lat_sec < n_lat and e_long <= lonw_sec < w_long:
            if best is None or sg["lat_inc"] < subgrids[best]["lat_inc"]:
                best = i
    return best


def selftest():
    coef = [1.0, 0.5, 0.25, 0.125, 0.0, 0.0, 0.0, 0.0, 0.0, 0.0, 0.0, 0.0]
    if poly(coef, 2, 4) != 1 + 1 + 1 + 1 or degree(coef) != "bilinear":
        raise HarnessError("ntv2 oracle self-test")
    fu, fv = poly_grad([0, 0, 0, 0, 1.0, 0, 0, 0, 0.5, 0, 0, 0], 2.0, 3.0)
    if (fu, fv) != (2 * 2 + 0.5 * 2 * 2 * 9, 0.5 * 4 * 2 * 3):
        raise HarnessError("ntv2 oracle self-test (gradient)")
