"""Exact Transverse Mercator of the ellipsoid, independent of the Krueger series used by the code under test.

TM is the analytic continuation of the meridian distance M(phi) regarded as a function of the isometric
latitude psi(phi) = asinh(tan phi) - e atanh(e sin phi):   N + iE = k0 * M(psi^-1(psi(phi) + i dlambda)).
We solve psi(phi_c) = psi(phi) + i*dlambda for the complex latitude phi_c by Newton, then integrate
a(1-e^2)(1 - e^2 sin^2 t)^(-3/2) along the straight segment 0 -> phi_c with 48-point Gauss-Legendre in complex
double precision.  dZ/dw = a cos(phi_c) / sqrt(1 - e^2 sin^2 phi_c) gives point scale and convergence analytically.

Validated in the design phase against a 40-digit mpmath evaluation of the same definition (max 3.7e-9 m over
lat in [-80, 84], |dlon| <= 30 deg, 1/f in [150, 400]); the self-test re-checks frozen mpmath values and the
closed-form spherical projection.
"""
import cmath
import math

import numpy as np

from ..core import HarnessError

_GLX, _GLW = np.polynomial.legendre.leggauss(48)
_GLX = [float(x) for x in _GLX]
_GLW = [float(w) for w in _GLW]


def _psi(phi, e):
    return cmath.asinh(cmath.tan(phi)) - e * cmath.atanh(e * cmath.sin(phi))


def exact_tm(lat_deg, dlon_deg, a, invf):
    """-> (northing-like, easting-like, scale, gamma_deg) all for k0 = 1 and no false origin.

    gamma = arg(dZ/dw) is the grid bearing of the projected meridian (true north), clockwise from grid north,
    so grid bearing = azimuth + gamma: the library's sign convention (negative east of the central meridian in
    the northern hemisphere; the classical formula atan(tan dlambda sin phi) is its negative).
    """
    f = 1.0 / invf
    e2 = f * (2.0 - f)
    e = math.sqrt(e2)
    phi = math.radians(lat_deg)
    lam = math.radians(dlon_deg)
    w = complex(_psi(phi, e).real, lam)
    phic = cmath.atan(cmath.sinh(w))
    for _ in range(60):
        s = cmath.sin(phic)
        c = cmath.cos(phic)
        F = _psi(phic, e) - w
        dF = (1.0 - e2) / ((1.0 - e2 * s * s) * c)
        d = F / dF
        phic -= d
        if abs(d) < 1e-15:
            break
    else:
      if not abs(d) < 1e-13:
        raise HarnessError("exact_tm: Newton did not converge at lat=%r dlon=%r a=%r invf=%r" % (
            lat_deg, dlon_deg, a, invf))
    tot = 0j
    h = phic / 2.0
    for x, wt in zip(_GLX, _GLW):
        st_ = cmath.sin(h * (x + 1.0))
        tot += wt * (1.0 - e2 * st_ * st_) ** -1.5
    M = a * (1.0 - e2) * tot * h
    s = cmath.sin(phic)
    c = cmath.cos(phic)
    dZ = a * c / cmath.sqrt(1.0 - e2 * s * s)
    nu_cos = a * math.cos(phi) / math.sqrt(1.0 - e2 * math.sin(phi) ** 2)
    k = abs(dZ) / nu_cos
    gamma = math.degrees(cmath.phase(dZ))
    return M.real, M.imag, k, gamma


def _forward_w(w, a, e, e2):
    """Z = N + iE and dZ/dw at the complex isometric latitude w = psi + i*dlambda (k0 = 1)."""
    phic = cmath.atan(cmath.sinh(w))
    d = 0.0
    for _ in range(60):
        s = cmath.sin(phic)
        c = cmath.cos(phic)
        d = (_psi(phic, e) - w) * ((1.0 - e2 * s * s) * c) / (1.0 - e2)
        phic -= d
        if abs(d) < 1e-15:
            break
    tot = 0j
    h = phic / 2.0
    for x, wt in zip(_GLX, _GLW):
        st_ = cmath.sin(h * (x + 1.0))
        tot += wt * (1.0 - e2 * st_ * st_) ** -1.5
    s = cmath.sin(phic)
    return a * (1.0 - e2) * tot * h, a * cmath.cos(phic) / cmath.sqrt(1.0 - e2 * s * s)


def exact_tm_inverse(n, e_, a, invf):
    """(northing-like, easting-like) for k0 = 1, no false origin -> (lat_deg, dlon_deg): Newton on the exact forward mapping,
    started from the sphere.  Independent of the inverse series of the code under test; used to decide whether a grid
    coordinate lies in a property's domain *before* the library is asked (accuracy needed there: 1e-6 deg; achieved: 1e-12)."""
    f = 1.0 / invf
    e2 = f * (2.0 - f)
    e = math.sqrt(e2)
    Z = complex(n, e_)
    near_pole = abs(n) > 0.95 * a * (1.0 - f / 2.0) * math.pi / 2.0       # within ~5 deg of (or beyond) the end of the meridian
    try:
        w = 2.0 * cmath.atanh(cmath.tan(Z / (2.0 * a)))
        for _ in range(40):
            Zw, dZ = _forward_w(w, a, e, e2)
            d = (Zw - Z) / dZ
            w -= d
            if abs(d) < 1e-15:
                break
        else:
            if not abs(d) < 1e-12:
                raise OverflowError("no convergence")
    except (OverflowError, ZeroDivisionError, ValueError):
        if near_pole:
            return None         # no such point (the northing lies beyond the pole), or too close to it to matter: outside every domain
        raise HarnessError("exact_tm_inverse: Newton did not converge at N=%r E=%r a=%r invf=%r" % (n, e_, a, invf))
    psi = w.real
    phi = math.atan(math.sinh(psi))
    for _ in range(60):
        sp = math.sin(phi)
        dphi = (math.asinh(math.tan(phi)) - e * math.atanh(e * sp) - psi) * ((1.0 - e2 * sp * sp) * math.cos(phi)) / (1.0 - e2)
        phi -= dphi
        if abs(dphi) < 1e-16:
            break
    return math.degrees(phi), math.degrees(w.imag)


def project(lat, lon, cm, a, invf, k0, fe, fn):
    """Easting, northing (false northing added iff the point is south of the equator), scale, library-signed convergence."""
    n, e, k, g = exact_tm(lat, lon - cm, a, invf)
    east = k0 * e + fe
    north = k0 * n + (fn if n < 0 else 0.0)
    return east, north, k0 * k, g


# (lat, dlon, a, invf) -> (N, E) from a 40-digit mpmath evaluation of the definition above (frozen)
_FROZEN = [
    ((-37.0, 2.0, 6378137.0, 298.257222101), (-4098381.4117974778689, 178033.40313905598906)),
    ((84.0, 30.0, 6378137.0, 298.257222101), (9421078.1324827075672, 334762.56339041204449)),
    ((-80.0, -29.5, 6378160.0, 298.25), (-9027572.9915453314321, -548505.28789203472492)),
    ((1e-09, 25.0, 6378388.0, 297.0), (0.00012209646235202137408, 2876545.2620416393814)),
    ((45.0, 15.0, 6300000.0, 150.0), (5009595.3202722203161, 1170052.5940193196533)),
]


def selftest():
    # 1. sphere (invf -> infinity) closed form
    a = 6371000.0
    for lat, dl in [(30.0, 10.0), (-60.0, -25.0), (83.0, 29.0), (0.0, 5.0), (12.0, 0.0)]:
        n, e, k, g = exact_tm(lat, dl, a, 1e12)
        phi, lam = math.radians(lat), math.radians(dl)
        B = math.cos(phi) * math.sin(lam)
        e0 = a * math.atanh(B)
        n0 = a * math.atan2(math.tan(phi), math.cos(lam))
        k0 = 1.0 / math.sqrt(1.0 - B * B)
        g0 = math.degrees(math.atan(math.tan(lam) * math.sin(phi)))
        if abs(n - n0) > 1e-4 or abs(e - e0) > 1e-4 or abs(k - k0) > 1e-10 or abs(g + g0) > 1e-9:
            raise HarnessError("tm oracle self-test (sphere) failed at %r: %r vs %r" % (
                (lat, dl), (n, e, k, g), (n0, e0, k0, g0)))
    # 2. frozen high-precision values
    for args, (N, E) in _FROZEN:
        n, e, k, g = exact_tm(*args)
        if abs(n - N) > 2e-8 + 1e-14 * abs(N) or abs(e - E) > 2e-8 + 1e-14 * abs(E):
            raise HarnessError("tm oracle self-test (frozen mpmath) failed at %r: %r vs %r" % (args, (n, e), (N, E)))
    # 2b. the inverse used for domain decisions inverts the forward mapping
    for lat, dl, a_, invf_ in [(-37.0, 2.0, 6378137.0, 298.257222101), (83.9, 29.0, 6378137.0, 298.257222101), (-79.9, -30.0, 6378388.0, 297.0),
                               (0.0, 12.0, 6300000.0, 150.0), (45.0, 0.0, 6400000.0, 400.0), (1e-7, -1e-7, 6378160.0, 298.25)]:
        n, e, k, g = exact_tm(lat, dl, a_, invf_)
        la, dlo = exact_tm_inverse(n, e, a_, invf_)
        if abs(la - lat) > 1e-10 or abs(dlo - dl) > 1e-10:
            raise HarnessError("tm oracle self-test (inverse) failed at %r: %r" % ((lat, dl, a_, invf_), (la, dlo)))
    # 3. scale/convergence are the analytic derivative: compare with a finite difference of the mapping itself
    for lat, dl in [(-37.0, 2.5), (60.0, -20.0), (10.0, 28.0)]:
        a, invf = 6378137.0, 298.257222101
        n, e, k, g = exact_tm(lat, dl, a, invf)
        h = 1e-6
        n2, e2_, _, _ = exact_tm(lat + h, dl, a, invf)
        f = 1.0 / invf
        ee = f * (2 - f)
        rho = a * (1 - ee) / (1 - ee * math.sin(math.radians(lat)) ** 2) ** 1.5
        ds = rho * math.radians(h)
        kk = math.hypot(n2 - n, e2_ - e) / ds
        gg = math.degrees(math.atan2(e2_ - e, n2 - n))
        if abs(kk - k) > 1e-7 or abs(gg - g) > 1e-5:
            raise HarnessError("tm oracle self-test (derivative) failed at %r" % ((lat, dl, kk, k, gg, g),))
