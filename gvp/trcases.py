"""Generators / helpers for the transformation properties (C06, C07, C09, C11, C13)."""
import datetime
import math

import numpy as np
from hypothesis import strategies as st

from . import repo, strategies as S

P7 = ("tx", "ty", "tz", "sc", "rx", "ry", "rz")
R7 = ("d_tx", "d_ty", "d_tz", "d_sc", "d_rx", "d_ry", "d_rz")
SD7 = ("sd_tx", "sd_ty", "sd_tz", "sd_sc", "sd_rx", "sd_ry", "sd_rz")
SDR7 = ("sd_d_tx", "sd_d_ty", "sd_d_tz", "sd_d_sc", "sd_d_rx", "sd_d_ry", "sd_d_rz")

# the catalogue's names, frozen here so that generation does not depend on the tree under test (a constant that
# disappears from the tree is reported by C11's enumeration, and by an AttributeError -> violation here)
_NAMES = None


def shipped_names():
    global _NAMES
    if _NAMES is None:
        c = repo.mod("geodepy.constants")
        _NAMES = sorted(n for n in dir(c) if not n.startswith("_") and isinstance(getattr(c, n, None), c.Transformation))
    return _NAMES


def shipped_dated_names():
    c = repo.mod("geodepy.constants")
    return [n for n in shipped_names() if isinstance(getattr(c, n).ref_epoch, datetime.date)]


class CallerDate(datetime.date):
    """A caller's own subclass of datetime.date (the way calendar / epoch helper packages hold dates)."""


def make_trans(spec):
    c = repo.mod("geodepy.constants")
    if "name" in spec:
        return getattr(c, spec["name"])
    sd = None
    if spec.get("sd") is not None:
        kw = dict(zip(SD7, spec["sd"]))
        if spec.get("sdr") is not None:
            kw.update(dict(zip(SDR7, spec["sdr"])))
        if spec.get("pnum") == "np64":
            kw = {k: np.float64(v) for k, v in kw.items()}       # uncertainties taken from an array (np.sqrt(np.diag(cov)))
        sd = c.TransformationSD(**kw)
    ep = spec.get("epoch")
    ref = datetime.date(*ep) if ep else 0
    if ep and spec.get("epoch_cls") == "subclass":
        ref = CallerDate(*ep)          # the reference epoch held in a date subclass of the caller's own (any date is a date)
    rates = spec.get("rates") or [0.0] * 7
    p = spec["p"]
    # representation of the parameters: numpy float64 scalars (a set built from an array) or Python ints (whole values)
    pnum = spec.get("pnum", "float")
    if pnum == "np64":
        p, rates = [np.float64(v) for v in p], [np.float64(v) for v in rates]
    elif pnum == "int":
        p, rates = [int(v) for v in p], [int(v) if abs(v) >= 1 else v for v in rates]     # truncated: stays inside the domain
    # (parameters positionally as in the shipped tables, rates by name as the module's own convention asks)
    return c.Transformation(spec.get("from", "A"), spec.get("to", "B"), ref, *p, **dict(zip(R7, rates)), tf_sd=sd)


def spec_values(spec):
    """(p, rates) as the spec asks for them (after the representation rule of make_trans), as floats."""
    p, rates = list(spec["p"]), list(spec.get("rates") or [0.0] * 7)
    if spec.get("pnum") == "int":
        p, rates = [int(v) for v in p], [int(v) if abs(v) >= 1 else v for v in rates]
    return tuple(float(v) for v in p), tuple(float(v) for v in rates)


def expected_params(spec, tr):
    """Seven parameters the set must hold: from the generated spec for random sets (and the object must store exactly those:
    a constructor that files an argument in the wrong slot is reported), from the constant itself for shipped sets."""
    from .core import Fail
    if "name" in spec:
        return params_of(tr)
    p, rates = spec_values(spec)
    if params_of(tr) != p or rates_of(tr) != rates:
        raise Fail("a Transformation does not hold the parameters and rates it was constructed with",
                   expected={"p": p, "rates": rates}, observed={"p": params_of(tr), "rates": rates_of(tr)}, bucket="constructor slots")
    return p


def params_of(tr):
    return tuple(float(getattr(tr, k)) for k in P7)


def rates_of(tr):
    return tuple(float(getattr(tr, k)) for k in R7)


def sd_of(tr):
    if tr.tf_sd is None:
        return None
    return tuple(float(getattr(tr.tf_sd, k)) for k in SD7)


def coord(lim):
    return st.one_of(S.floats(-lim, lim), S.floats(-lim, lim), st.sampled_from([0.0, lim, -lim, 1.0, -1.0]))


def point(lim):
    surf = st.builds(lambda la, lo, h: (
        (6378137.0 + h) * math.cos(math.radians(la)) * math.cos(math.radians(lo)),
        (6378137.0 + h) * math.cos(math.radians(la)) * math.sin(math.radians(lo)),
        (6356752.0 + h) * math.sin(math.radians(la))), S.floats(-90, 90), S.floats(-180, 180), S.floats(-1e3, 9e3))
    box = st.tuples(coord(lim), coord(lim), coord(lim))
    return st.one_of(box, box, surf).map(list)


pnum_kind = st.sampled_from(["float"] * 4 + ["np64", "int"])


_ROT = st.one_of(S.floats(-59.9, 59.9), S.floats(-59.9, 59.9), S.floats(-59.9, 59.9), S.floats(-1.0, 1.0),
                 # up to the open end of "below one arc-minute"
                 st.sampled_from([59.99999999994, math.nextafter(60.0, 0.0), -math.nextafter(60.0, 0.0), 59.9999, -59.99999999951, 0.0]))


def random_p7():
    return st.tuples(S.floats(-1000, 1000), S.floats(-1000, 1000), S.floats(-1000, 1000), S.floats(-100, 100), _ROT, _ROT, _ROT).map(list)


def random_sd7():
    # standard deviations below 1e-12 (m, ppm, arcsec) are replaced by 0: their squares underflow to subnormals
    return st.tuples(S.floats(0, 0.1), S.floats(0, 0.1), S.floats(0, 0.1), S.floats(0, 0.01),
                     S.floats(0, 0.01), S.floats(0, 0.01), S.floats(0, 0.01)).map(lambda t: [0.0 if v < 1e-12 else v for v in t])


_U = S.floats(-1.0, 1.0)


def unit(draw):
    """A float in [-1, 1] without the subnormal-range values Hypothesis likes (their squares underflow)."""
    v = draw(_U)
    return 0.0 if abs(v) < 1e-6 else v


@st.composite
def psd3(draw):
    """Symmetric positive semi-definite 3x3 (full rank, rank 2, rank 1, diagonal, zero), scales 1e-8 .. 1."""
    kind = draw(st.sampled_from(["full", "full", "rank2", "rank1", "diag", "zero", "illcond"]))
    scale = draw(st.one_of(S.log_uniform(1e-8, 1.0), S.log_uniform(1e-8, 1.0), S.log_uniform(1e-14, 1e4)))
    if kind == "zero":
        return [[0.0] * 3 for _ in range(3)]
    if kind == "diag":
        d = [abs(unit(draw)) * scale for _ in range(3)]
        return [[d[0], 0.0, 0.0], [0.0, d[1], 0.0], [0.0, 0.0, d[2]]]
    ncol = {"full": 3, "rank2": 2, "rank1": 1, "illcond": 3}[kind]
    A = np.array([[unit(draw) for _ in range(ncol)] for _ in range(3)])
    if kind == "illcond":
        A = A @ np.diag([1.0, 1e-2, 1e-4])
    V = (A @ A.T) * scale
    V = (V + V.T) / 2.0
    return V.tolist()


def rotated(V):
    """R V R^T for a fixed rotation, evaluated in floating point and NOT re-symmetrised: a covariance as callers really hold it
    after rotating it between frames - symmetric to rounding, not bit for bit."""
    c1, s1, c2, s2 = math.cos(0.3), math.sin(0.3), math.cos(1.1), math.sin(1.1)
    R = np.array([[c1, -s1, 0.0], [s1, c1, 0.0], [0.0, 0.0, 1.0]]) @ np.array([[c2, 0.0, s2], [0.0, 1.0, 0.0], [-s2, 0.0, c2]])
    return (R @ np.array(V, dtype=float) @ R.T).tolist()


def psd3_as_held():
    """psd3, two in three exactly symmetric, one in three symmetric only to rounding (see rotated)."""
    return st.one_of(psd3(), psd3(), psd3().map(rotated))


def fro(M):
    M = np.asarray(M, dtype=float)
    m = float(np.abs(M).max()) if M.size else 0.0
    if m == 0.0 or not np.isfinite(m):
        return m
    return m * float(np.sqrt(((M / m) ** 2).sum()))      # no underflow for tiny matrices
