"""Generators and helpers shared by the Transverse Mercator properties (C01, C02, C10, and users C13-C15)."""
import math

from hypothesis import strategies as st

from . import strategies as S
from .core import Discard
from .oracles import tm_exact

LAT_EDGES = [-80.0, 84.0, 0.0, 1e-9, -1e-9, 1e-12, -1e-12, 1e-15, -1e-15, 45.0, -45.0, 83.999999999, -79.999999999]

lat_band = st.one_of(S.floats(-80.0, 84.0), S.floats(-80.0, 84.0), S.floats(-80.0, 84.0), st.sampled_from(LAT_EDGES),
                     S.floats(80.0, 84.0), S.floats(-80.0, -76.0), S.floats(-1.0, 1.0))

# offsets from the central meridian: uniform up to 30 deg, denser near the usual zone half-width and near 0 / 30
dlon_wide = st.one_of(S.floats(-30.0, 30.0), S.floats(-30.0, 30.0), S.floats(-3.5, 3.5), S.floats(-3.5, 3.5),
                      st.sampled_from([0.0, 3.0, -3.0, 30.0, -30.0, 1.0, -1.0, 1e-9, -1e-9, 1e-12, -1e-12,
                                       2.999999999, -2.999999999, 29.999999999, -29.999999999]),
                      S.floats(20.0, 30.0), S.floats(-30.0, -20.0), S.floats(3.0, 20.0), S.floats(-20.0, -3.0))


def custom_projection():
    """A user-defined Transverse Mercator family: false origin, central scale, zone width and first central meridian.  Two in
    three are 'tidy' (round false origins, integer widths, central meridians on the width's lattice), one in three arbitrary
    floats (negative / fractional false origins, central scale on either side of 1, fractional widths, any first meridian)."""
    def build(fe, fn, k0, zw, start_frac, tidy, fe2, fn2, k02, zw2):
        if not tidy:
            fe, fn, k0, zw = fe2, fn2, k02, zw2
        span = 60.0 * zw
        if span >= 360.0:
            start = -180.0
        elif tidy:
            # the 60 admissible zones cover [start, start + span); place that window anywhere inside [-180, 180]
            start = -180.0 + round(start_frac * (360.0 - span) / zw) * zw
        else:
            start = -180.0 + start_frac * (360.0 - span)
        return {"fe": fe, "fn": fn, "k0": k0, "zw": zw, "cm1": start + zw / 2.0,
                "cls": "subclass" if int(start_frac * 1000) % 3 == 0 else "plain"}
    return st.builds(build,
                     st.sampled_from([0.0, 200000.0, 300000.0, 500000.0, 1234567.5]),
                     st.sampled_from([0.0, 5000000.0, 10000000.0, 7654321.25]),
                     st.one_of(st.sampled_from([0.9996, 0.99994, 1.0, 0.999]), S.floats(0.999, 1.0)),
                     st.sampled_from([2, 3, 6, 8]),
                     S.floats(0.0, 1.0),
                     st.sampled_from([True, True, False]),
                     S.floats(-1e6, 3e6), st.one_of(S.floats(5e6, 1e7), st.just(10000000.0), S.floats(0.0, 1e7)), S.floats(0.99, 1.01),
                     st.sampled_from([1.5, 2.5, 4.5, 7.5, 0.75, 5.0, 6.0]))


def projection_spec(isg_weight=1):
    # weights by construction: utm 3, isg isg_weight, custom 2
    names = ["utm"] * 3 + ["isg"] * isg_weight + [None] * 2
    cp = custom_projection()

    @st.composite
    def pick(draw):
        n = names[draw(st.integers(0, len(names) - 1))]
        return n if n is not None else draw(cp)
    return pick()


_PRJ = projection_spec()


def zones_of(prj):
    fe, fn, k0, zw, cm1, kind = S.projection_params(prj)
    if kind == "isg":
        return list(S.ISG_ZONES)
    n = 60
    out = []
    for z in range(1, n + 1):
        cm = cm1 + (z - 1) * zw
        # zones whose central meridian lies up to 30 deg beyond +-180 are still within 30 deg (on the circle) of longitudes
        # on the other side of the antimeridian
        if -210.0 < cm < 210.0:
            out.append(z)
    return out


def cm_of(prj, zone):
    fe, fn, k0, zw, cm1, kind = S.projection_params(prj)
    if kind == "isg":
        return S.isg_cm(zone)
    return cm1 + (zone - 1) * zw


def auto_window(prj):
    """Longitudes for which automatic zone selection is defined (zones 1..60, or the ten ISG zones)."""
    fe, fn, k0, zw, cm1, kind = S.projection_params(prj)
    if kind == "isg":
        return [(138.0, 156.0), (158.0, 160.0)]
    lo = cm1 - zw / 2.0
    hi = min(180.0, lo + 60.0 * zw)
    return [(max(lo, -180.0), hi)]


_unit = S.floats(0.0, 1.0)
_OFF = [0.0, 1e-9, -1e-9, 1e-13, -1e-13, 3e-14, -3e-14]


def _nodenormal(x):
    return 0.0 if abs(x) < 1e-300 else x


@st.composite
def geo_cases(draw, invf_lo=150.0, invf_hi=400.0, kinds=True, max_dlon=30.0, prj_strategy=None, ell_strategy=None):
    """A geographic position with ellipsoid, projection and zone request (automatic or explicit)."""
    prj = draw(prj_strategy if prj_strategy is not None else _PRJ)
    ell = draw(ell_strategy if ell_strategy is not None else S.ellipsoid_spec(invf_lo, invf_hi))
    if prj == "isg" and draw(st.integers(0, 3)) > 0:
        ell = "ans"
    lat = _nodenormal(draw(lat_band))
    mode = draw(st.integers(0, 2))
    fe, fn, k0, zw, cm1, kind = S.projection_params(prj)
    if mode == 0:
        wins = auto_window(prj)
        lo, hi = wins[draw(st.integers(0, len(wins) - 1))]
        sel = draw(st.integers(0, 3))
        if sel < 3:
            lon = lo + draw(_unit) * (hi - lo)
        else:
            # a zone edge (or an end of the automatically zoned range) plus a tiny offset
            k = draw(st.integers(0, int(round((hi - lo) / zw))))
            lon = lo + k * zw + _OFF[draw(st.integers(0, len(_OFF) - 1))]
        lon = min(max(lon, lo), math.nextafter(hi, -math.inf))
        if kind != "isg" and not (float(zw).is_integer() and float(cm1 * 2).is_integer()):
            # arbitrary widths / first meridians: the ends of the zoned range are themselves rounded numbers, so a longitude
            # "on" them may lie a rounding error outside every zone; stay 1e-9 deg inside (interior limits are still hit)
            lon = min(max(lon, lo + 1e-9), hi - 1e-9)
        zone = 0
    else:
        zs = zones_of(prj)
        zone = zs[draw(st.integers(0, len(zs) - 1))]
        cm = cm_of(prj, zone)
        dl = draw(dlon_wide)
        if abs(dl) > max_dlon:
            dl = math.copysign(max_dlon, dl)
        lon = cm + dl
        # across the antimeridian: either express the same longitude in [-180, 180) (the zone's central meridian is then
        # ~360 deg away numerically, a few degrees away on the circle) or stay on the central meridian's side
        across = draw(st.booleans())
        if lon >= 180.0:
            lon = (lon - 360.0) if across else (cm - abs(dl))
        if lon < -180.0:
            lon = (lon + 360.0) if across else (cm + abs(dl))
        if not (-180.0 <= lon < 180.0):
            lon = ((cm + 180.0) % 360.0) - 180.0
    kind_ = draw(S.angle_kind) if kinds else "float"
    kind2 = kind_
    if kinds and draw(st.integers(0, 5)) == 0:
        kind2 = draw(S.angle_kind)              # latitude and longitude in different representations
    num = draw(S.num_kind)
    if num == "int" and draw(st.booleans()):
        # whole degrees (so that Python ints are what is passed), kept inside the band and within max_dlon of the zone's meridian
        la, lo = float(round(lat)), float(round(lon))
        ok = -80.0 <= la <= 84.0 and -180.0 <= lo < 180.0
        if ok and zone:
            ok = abs(((lo - cm_of(prj, zone) + 180.0) % 360.0) - 180.0) <= max_dlon
        if ok and not zone:
            ok = any(w[0] <= lo < w[1] for w in auto_window(prj))
        if ok:
            lat, lon = la, lo
    return {"lat": lat, "lon": lon, "zone": zone, "ell": ell, "prj": prj, "kind": kind_, "kind2": kind2, "num": num,
            "defaults": draw(st.booleans())}


def resolve(case):
    """-> (ellipsoid object, projection object, (a, invf), (fe, fn, k0, zw, cm1, kind))"""
    return (S.make_ellipsoid(case["ell"]), S.make_projection(case["prj"]), S.ellipsoid_params(case["ell"]),
            S.projection_params(case["prj"]))


def oracle_forward(lat, lon, cm, case):
    a, invf = S.ellipsoid_params(case["ell"])
    fe, fn, k0, zw, cm1, kind = S.projection_params(case["prj"])
    dl = ((lon - cm + 180.0) % 360.0) - 180.0          # the difference on the circle
    n, e, k, g = tm_exact.exact_tm(lat, dl, a, invf)
    east = k0 * e + fe
    north = k0 * n + (fn if lat < 0 else 0.0)
    return east, north, k0 * k, g


def _rep(case, x):
    """A plain float argument in the numeric representation of the case (Python int / numpy float64 where they hold the value)."""
    return S.as_kind(x, case.get("num", "float")) if type(x) is float else x


def _zone_rep(case, zone):
    if case.get("num") == "np64":
        import numpy as np
        return np.int64(zone)
    return zone


def geo_args(case):
    """(lat argument, lon argument, lat in degrees, lon in degrees) in the representations of the case."""
    lat_o = S.angle_obj(case.get("kind", "float"), case["lat"])
    lon_o = S.angle_obj(case.get("kind2", case.get("kind", "float")), case["lon"])
    return lat_o, lon_o, S.obj_dec(lat_o), S.obj_dec(lon_o)


def call_geo2grid(cv, case, lat_arg, lon_arg):
    import warnings
    ell, prj, _, _ = resolve(case)
    lat_arg, lon_arg = _rep(case, lat_arg), _rep(case, lon_arg)
    if case["zone"]:
        case = dict(case, zone=_zone_rep(case, case["zone"]))
    with warnings.catch_warnings():
        warnings.simplefilter("ignore", UserWarning)     # documented: ISG with a non-ANS ellipsoid warns
        if case.get("defaults"):
            # leave out every argument whose requested value is the documented default (zone 0, GRS80, UTM)
            if case["prj"] == "utm" and case["ell"] == "grs80":
                return cv.geo2grid(lat_arg, lon_arg) if case["zone"] == 0 else cv.geo2grid(lat_arg, lon_arg, zone=case["zone"])
            if case["prj"] == "utm":
                return cv.geo2grid(lat_arg, lon_arg, case["zone"], ellipsoid=ell)
            return cv.geo2grid(lat_arg, lon_arg, zone=case["zone"], ellipsoid=ell, prj=prj)
        return cv.geo2grid(lat_arg, lon_arg, case["zone"], ell, prj)


def call_grid2geo(cv, case, zone, east, north, hemi):
    import warnings
    ell, prj, _, _ = resolve(case)
    zone, east, north = _zone_rep(case, zone), _rep(case, east), _rep(case, north)
    if case.get("num") == "np64":
        # the hemisphere label as it comes back out of a numpy table of results (numpy.str_ is a str)
        import numpy as np
        hemi = np.str_(hemi)
    with warnings.catch_warnings():
        warnings.simplefilter("ignore", UserWarning)
        if case.get("defaults"):
            if case["prj"] == "utm" and case["ell"] == "grs80" and hemi.lower() == "south":
                return cv.grid2geo(zone, east, north)                   # hemisphere 'south', GRS80 and UTM are the defaults
            if case["prj"] == "utm" and case["ell"] == "grs80":
                return cv.grid2geo(zone, east, north, hemisphere=hemi.upper() if int(zone) % 2 else hemi.capitalize())
            return cv.grid2geo(zone, east, north, hemisphere=hemi, ellipsoid=ell, prj=prj)
        return cv.grid2geo(zone, east, north, hemi, ell, prj)


def tm_classes(case):
    out = []
    e = case["ell"]
    out.append("ell:" + (e if isinstance(e, str) else "custom"))
    p = case["prj"]
    out.append("prj:" + (p if isinstance(p, str) else "custom"))
    out.append("zone:" + ("auto" if case.get("zone", 1) == 0 else "explicit"))
    if "kind" in case:
        out.append("kind:" + case["kind"])
        if case.get("kind2", case["kind"]) != case["kind"]:
            out.append("mixed-representations")
    if "num" in case:
        vals = [case[k] for k in ("lat", "lon", "east", "north") if k in case]
        really = case["num"] == "np64" or (case["num"] == "int" and any(float(v).is_integer() for v in vals))
        out.append("num:" + (case["num"] if really else "float"))
    if not isinstance(p, str):
        tidy = float(p["zw"]).is_integer() and 0.999 <= p["k0"] <= 1.0 and p["fe"] >= 0
        out.append("custom-prj:" + ("tidy" if tidy else "arbitrary"))
    if "lat" in case:
        out.append("north" if case["lat"] > 0 else ("south" if case["lat"] < 0 else "equator"))
        if case.get("zone", 0):
            raw = abs(case["lon"] - cm_of(p, case["zone"]))
            if raw > 180.0:
                out.append("across-antimeridian")
            d = abs(((case["lon"] - cm_of(p, case["zone"]) + 180.0) % 360.0) - 180.0)
            out.append("dlon>=20" if d >= 20 else ("dlon>3" if d > 3 else ("on-cm" if d == 0 else "dlon<=3")))
        out.append("west" if case["lon"] < 0 else "east")
    return out


def in_band_or_discard(lat, lon):
    if not (-80.0 <= lat <= 84.0) or not (-180.0 <= lon < 180.0):
        raise Discard()          # the quantifier's longitudes are [-180, 180)


# ------------------------------------------------------------------------------------------------ grid lattice

def meridian_arc(lat_deg, a, invf):
    """Meridian distance from the equator (k0 = 1), from the same exact oracle (dlon = 0)."""
    return tm_exact.exact_tm(lat_deg, 0.0, a, invf)[0]


@st.composite
def grid_cases(draw, prj_strategy=None, ell_strategy=None, wide=True):
    """A grid coordinate drawn directly: zone, hemisphere, easting, northing (plus ellipsoid and projection).

    Northings are built from a fraction of the meridian arc to the band limit so that most cases lie inside the
    latitude band; eastings either inside the usual zone (|E - FE| <= 400 km), anywhere in the accepted range, or on
    a 100 km lattice.  Cases whose inverse falls outside the property's domain are discarded by the check (counted).
    """
    prj = draw(prj_strategy if prj_strategy is not None else _PRJ)
    ell = draw(ell_strategy if ell_strategy is not None else S.ellipsoid_spec())
    if prj == "isg" and draw(st.integers(0, 3)) > 0:
        ell = "ans"
    fe, fn, k0, zw, cm1, kind = S.projection_params(prj)
    a, invf = S.ellipsoid_params(ell)
    zs = zones_of(prj)
    zone = zs[draw(st.integers(0, len(zs) - 1))]
    south = draw(st.booleans())
    ymax = abs(meridian_arc(-80.0 if south else 84.0, a, invf)) * k0
    sel = draw(st.integers(0, 5))
    if sel == 0:
        y = round(draw(_unit) * ymax / 1e5) * 1e5        # 100 km lattice
    elif sel == 1:
        y = [0.0, 1e-4, 1.0, ymax * (1 - 1e-9), ymax * 0.5][draw(st.integers(0, 4))]
    else:
        y = draw(_unit) * ymax
    north = (fn - y) if south else y
    esel = draw(st.integers(0, 5)) if wide else 2
    if esel <= 2:
        x = (draw(_unit) * 2 - 1) * 400000.0
    elif esel == 3:
        x = round((draw(_unit) * 2 - 1) * 30) * 1e5      # 100 km lattice out to +-3000 km
    elif esel == 4:
        x = [0.0, 1e-4, -1e-4, 1.0, -1.0][draw(st.integers(0, 4))]
    else:
        x = (draw(_unit) * 2 - 1) * 3.3e6
    east = fe + x
    num = draw(S.num_kind)
    if num == "int" and draw(st.booleans()):
        east, north = float(round(east)), float(round(north))        # whole metres, passed as Python ints
        if south and north > fn:
            north = float(math.floor(fn))                              # (rounding must not carry the point across the equator)
    return {"zone": zone, "east": east, "north": north, "hemi": "south" if south else "north", "ell": ell, "prj": prj,
            "defaults": draw(st.booleans()), "num": num}


def grid_domain_or_discard(case, lat, lon):
    """C02's quantifier: accepted E/N range, latitude at least 1e-6 deg inside the band, |lon - CM| <= 30, lon in [-180, 180]."""
    if not (-2830000.0 <= case["east"] <= 3830000.0) or not (0.0 <= case["north"] <= 10000000.0):
        raise Discard()
    if not (-80.0 + 1e-6 <= lat <= 84.0 - 1e-6):
        raise Discard()
    cm = cm_of(case["prj"], case["zone"])
    if abs(lon - cm) > 30.0 or not (-180.0 <= lon <= 180.0):
        raise Discard()


def oracle_inverse(case, zone=None, east=None, north=None, hemi=None):
    """(lat, lon) of a grid coordinate from the exact projection (Newton on the forward oracle): no code of the library involved."""
    a, invf = S.ellipsoid_params(case["ell"])
    fe, fn, k0, zw, cm1, kind = S.projection_params(case["prj"])
    zone = case["zone"] if zone is None else zone
    east = case["east"] if east is None else east
    north = case["north"] if north is None else north
    hemi = (case.get("hemi") or "south") if hemi is None else hemi
    n = (float(north) - (fn if str(hemi).lower() == "south" else 0.0)) / k0
    r = tm_exact.exact_tm_inverse(n, (float(east) - fe) / k0, a, invf)
    if r is None:
        raise Discard()         # a northing beyond the pole
    return r[0], cm_of(case["prj"], zone) + r[1]


def grid_predomain_or_discard(case, zone=None, east=None, north=None, hemi=None):
    """C02's quantifier decided WITHOUT the library: accepted E/N range, latitude inside the band, |lon - CM| <= 30, lon in
    [-180, 180] (each with a margin of 2e-6 deg, so that the library's own answer, if right to a decimetre, lies in the domain
    of the forward conversion as well).  A case that passes is in the domain: whatever the library then does with it -
    an exception, a latitude outside the band - is judged, not discarded."""
    e = case["east"] if east is None else east
    n = case["north"] if north is None else north
    grid_range_or_discard(e, n)
    lat, lon = oracle_inverse(case, zone, east, north, hemi)
    h = (case.get("hemi") or "south") if hemi is None else hemi
    if not (-80.0 + 2e-6 <= lat <= 84.0 - 2e-6):
        raise Discard()
    if (str(h).lower() == "south") != (lat < 0.0) and abs(lat) > 1e-9:
        raise Discard()          # (a northing beyond the equator for its hemisphere label: no such grid coordinate)
    cm = cm_of(case["prj"], case["zone"] if zone is None else zone)
    if abs(lon - cm) > 30.0 - 2e-6 or not (-180.0 + 2e-6 <= lon <= 180.0 - 2e-6):
        raise Discard()
    return lat, lon


def grid_range_or_discard(east, north):
    """The inverse conversion documents (and enforces) eastings in [-2 830 000, 3 830 000] and northings in [0, 1e7]."""
    if not (-2830000.0 <= east <= 3830000.0) or not (0.0 <= north <= 10000000.0):
        raise Discard()


# ------------------------------------------------------------------------------------------------ stratified sweeps
# Random draws find a region of relative measure p with probability ~ n p; a thin slab (one latitude, one northing, one
# offset from the central meridian) is found with certainty by a one-dimensional lattice finer than the slab.  The sweeps
# below walk each axis of the quantifier on an n-point lattice (seeded phase) while the other coordinates, the ellipsoid and
# the projection are fixed per line by the seed.  They are enumerations: a failing point is its own replay case.

def _sweep_rnd(seed, salt):
    import random
    return random.Random(1000003 * int(seed) + salt)


def _sweep_ell(rnd):
    if rnd.random() < 0.5:
        return S.SHIPPED_ELLIPSOIDS[rnd.randrange(4)]
    return {"a": rnd.uniform(6.3e6, 6.4e6), "invf": rnd.uniform(150.0, 400.0)}


def _sweep_prj(rnd):
    r = rnd.random()
    if r < 0.5:
        return "utm"
    zw = [2, 3, 6, 8][rnd.randrange(4)]
    return {"fe": [0.0, 200000.0, 500000.0][rnd.randrange(3)], "fn": 10000000.0, "k0": rnd.uniform(0.999, 1.0), "zw": zw,
            "cm1": -180.0 + zw / 2.0, "cls": ["plain", "subclass"][rnd.randrange(2)]}


def geo_sweeps(n_quick, n_thorough, lat_lo=-80.0, lat_hi=84.0):
    def enum(tier, seed, shard, nshards):
        n = n_thorough if tier == "thorough" else n_quick
        rnd = _sweep_rnd(seed, 101)
        base = {"kind": "float", "kind2": "float", "num": "float", "defaults": False}
        i = 0
        # 1. latitude sweep, UTM / GRS80, automatic zone, one seeded meridian
        lon = rnd.uniform(-180.0, 180.0)
        ph = rnd.random()
        for k in range(n):
            if i % nshards == shard:
                yield dict(base, lat=lat_lo + (k + ph) * (lat_hi - lat_lo) / n, lon=lon, zone=0, ell="grs80", prj="utm")
            i += 1
        # 2. latitude sweep, explicit zone, seeded ellipsoid / projection / offset from the central meridian (up to 30 deg)
        ell, prj = _sweep_ell(rnd), _sweep_prj(rnd)
        zs = [z for z in zones_of(prj) if -150.0 < cm_of(prj, z) < 150.0]
        zone = zs[rnd.randrange(len(zs))]
        dl = rnd.uniform(-30.0, 30.0)
        ph = rnd.random()
        for k in range(n):
            if i % nshards == shard:
                yield dict(base, lat=lat_lo + (k + ph) * (lat_hi - lat_lo) / n, lon=cm_of(prj, zone) + dl, zone=zone, ell=ell, prj=prj)
            i += 1
        # 3. longitude sweep around the globe, UTM, automatic zone, one seeded parallel and ellipsoid
        ell = _sweep_ell(rnd)
        lat = rnd.uniform(lat_lo, lat_hi)
        ph = rnd.random()
        for k in range(n):
            if i % nshards == shard:
                yield dict(base, lat=lat, lon=-180.0 + (k + ph) * 360.0 / n, zone=0, ell=ell, prj="utm")
            i += 1
        # 4. sweep of the offset from the central meridian (-30..30 deg), explicit zone, seeded parallel / ellipsoid / projection
        ell, prj = _sweep_ell(rnd), _sweep_prj(rnd)
        zs = [z for z in zones_of(prj) if -150.0 < cm_of(prj, z) < 150.0]
        zone = zs[rnd.randrange(len(zs))]
        lat = rnd.uniform(lat_lo, lat_hi)
        ph = rnd.random()
        for k in range(n):
            if i % nshards == shard:
                yield dict(base, lat=lat, lon=cm_of(prj, zone) - 30.0 + (k + ph) * 60.0 / n, zone=zone, ell=ell, prj=prj)
            i += 1
    return enum


def grid_sweeps(n_quick, n_thorough):
    def enum(tier, seed, shard, nshards):
        n = n_thorough if tier == "thorough" else n_quick
        rnd = _sweep_rnd(seed, 202)
        i = 0
        for line in range(4):
            # lines 0, 1: northing sweeps (equator .. band limit) at a seeded easting; lines 2, 3: easting sweeps at a seeded northing
            if line in (0, 2):
                ell, prj = "grs80", "utm"
            else:
                ell, prj = _sweep_ell(rnd), _sweep_prj(rnd)
            fe, fn, k0, zw, cm1, kind = S.projection_params(prj)
            a, invf = S.ellipsoid_params(ell)
            zs = zones_of(prj)
            zone = zs[rnd.randrange(len(zs))]
            south = rnd.random() < 0.5
            ymax = abs(meridian_arc(-80.0 if south else 84.0, a, invf)) * k0
            xmax = 400000.0 if line in (0, 2) else 3.0e6
            ph = rnd.random()
            x0 = rnd.uniform(-xmax, xmax)
            y0 = rnd.uniform(0.0, ymax if line in (0, 2) else 0.9 * ymax)
            for k in range(n):
                if i % nshards == shard:
                    if line < 2:
                        x, y = x0, (k + ph) * ymax / n
                    else:
                        x, y = -xmax + (k + ph) * 2 * xmax / n, y0
                    yield {"zone": zone, "east": fe + x, "north": (fn - y) if south else y, "hemi": "south" if south else "north",
                           "ell": ell, "prj": prj, "defaults": False, "num": "float"}
                i += 1
    return enum


# ------------------------------------------------------------------------------------------------ quasi-random fill (S.fill)

def _u_prj(u, u2):
    """utm (half), isg (an eighth), otherwise a tidy custom projection from the two coordinates."""
    if u < 0.5:
        return "utm"
    if u < 0.62:
        return "isg"
    zw, r = S.u_pick((u - 0.62) / 0.38, [2, 3, 6, 8])
    return {"fe": [0.0, 200000.0, 500000.0][min(int(r * 3), 2)], "fn": 10000000.0, "k0": 0.999 + 0.001 * u2, "zw": zw,
            "cm1": -180.0 + zw / 2.0, "cls": "subclass" if int(u2 * 1000) % 2 else "plain"}


def geo_fill(n_quick, n_thorough, salt=111):
    """Latitude x longitude (automatic zone, a third) or latitude x zone x offset of -30..30 deg from its meridian x ellipsoid x projection."""
    def build(u):
        lat = -80.0 + 164.0 * u[0]
        ell = S.u_ellipsoid(u[2], u[3])
        prj = _u_prj(u[4], u[5])
        if prj == "isg" and u[3] < 0.75:
            ell = "ans"
        base = {"kind": "float", "kind2": "float", "num": "float", "defaults": False, "ell": ell, "prj": prj, "lat": lat}
        if u[6] < 1.0 / 3.0:
            lo, hi = auto_window(prj)[0]
            return dict(base, lon=min(lo + (hi - lo) * u[1], math.nextafter(hi, -math.inf)), zone=0)
        zs = [z for z in zones_of(prj) if -150.0 < cm_of(prj, z) < 150.0]
        zone, r = S.u_pick((u[6] - 1.0 / 3.0) * 1.5, zs)
        return dict(base, lon=cm_of(prj, zone) - 30.0 + 60.0 * u[1], zone=zone)
    return S.fill(salt, 7, build, n_quick, n_thorough)


def grid_fill(n_quick, n_thorough, salt=222):
    """Zone x hemisphere x northing (equator .. band limit) x easting (half within 400 km, half within 3 000 km of the false easting)
    x ellipsoid x projection."""
    def build(u):
        ell = S.u_ellipsoid(u[2], u[3])
        prj = _u_prj(u[4], u[5])
        fe, fn, k0, zw, cm1, kind = S.projection_params(prj)
        a, invf = S.ellipsoid_params(ell)
        zs = zones_of(prj)
        zone, r = S.u_pick(u[6], zs)
        south = r < 0.5
        r = (r * 2) % 1.0
        ymax = abs(meridian_arc(-80.0 if south else 84.0, a, invf)) * k0
        if south:
            ymax = min(ymax, fn)
        xmax = 400000.0 if r < 0.5 else 3.0e6
        y, x = u[0] * ymax, (u[1] * 2 - 1) * xmax
        return {"zone": zone, "east": fe + x, "north": (fn - y) if south else y, "hemi": "south" if south else "north",
                "ell": ell, "prj": prj, "defaults": False, "num": "float"}
    return S.fill(salt, 7, build, n_quick, n_thorough)
