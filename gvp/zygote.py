"""History-free evaluator for C09.

Started as a fresh interpreter (`python -m gvp.zygote`) *before* it has made any library call.  For every request (one
call in JSON, length-prefixed pickle on stdin) it forks; the child evaluates the call in the pristine state and writes
the canonical form of the result (or of the exception) to stdout; the parent of the fork never evaluates anything, so
every answer is "what this call returns when nothing else has been called in the process".
"""
import os
import pickle
import struct
import sys


def _read(fd):
    hdr = b""
    while len(hdr) < 4:
        b = os.read(fd, 4 - len(hdr))
        if not b:
            return None
        hdr += b
    n = struct.unpack("<I", hdr)[0]
    buf = b""
    while len(buf) < n:
        b = os.read(fd, n - len(buf))
        if not b:
            return None
        buf += b
    return pickle.loads(buf)


def _write(fd, obj):
    data = pickle.dumps(obj, protocol=4)
    data = struct.pack("<I", len(data)) + data
    while data:
        n = os.write(fd, data)
        data = data[n:]


def evaluate(call):
    from . import purity
    try:
        fn, args = purity.build_args(call)
        return ["ok", purity.canon(fn(*args))]
    except Exception as e:      # noqa
        return ["exc", type(e).__name__, str(e)[:200]]


def serve():
    import warnings
    warnings.simplefilter("ignore")
    from . import repo, purity
    for m in ("constants", "angles", "convert", "geodesy", "statistics", "survey", "transform", "coord"):
        repo.mod("geodepy." + m)
    fin, fout = 0, 1
    real_out = os.dup(1)
    os.dup2(2, 1)       # anything the library prints goes to stderr, the protocol keeps its own descriptor
    while True:
        req = _read(fin)
        if req is None:
            return
        r, w = os.pipe()
        pid = os.fork()
        if pid == 0:
            os.close(r)
            try:
                _write(w, evaluate(req))
            finally:
                os._exit(0)
        os.close(w)
        ans = _read(r)
        os.close(r)
        os.waitpid(pid, 0)
        _write(real_out, ans if ans is not None else ["exc", "ZygoteChildDied", ""])


class Client(object):
    def __init__(self):
        import subprocess
        env = dict(os.environ)
        here = os.path.dirname(os.path.dirname(os.path.abspath(__file__)))
        env["PYTHONPATH"] = here + os.pathsep + env.get("PYTHONPATH", "")
        self.pid = os.getpid()
        self.p = subprocess.Popen([sys.executable, "-m", "gvp.zygote"], stdin=subprocess.PIPE, stdout=subprocess.PIPE, env=env, cwd=here)

    def ask(self, call):
        _write(self.p.stdin.fileno(), call)
        ans = _read(self.p.stdout.fileno())
        if ans is None:
            raise RuntimeError("zygote evaluator died")
        return ans

    def close(self):
        try:
            self.p.stdin.close()
            self.p.wait(timeout=5)
        except Exception:
            self.p.kill()


if __name__ == "__main__":
    serve()
