"""Machinery for C09 (purity): a catalogue of public-API calls with valid generated arguments, bit-exact canonical
forms of results, a deep snapshot of every module-level constant, a harness-side write barrier on the four constant
classes, and argument-mutation detection.  A *call* is plain JSON: {"fn": name, "a": {...}}.
"""
import copy
import datetime
import math

import numpy as np
from hypothesis import strategies as st

from . import repo, strategies as S, trcases as TR
from .core import HarnessError, pub_attrs

# ------------------------------------------------------------------------------------------------ canonical forms


def canon(x, depth=0):
    """Bit-exact, hashable, JSON-able rendering of a result / object graph."""
    if depth > 8:
        return "<deep>"
    if x is None or isinstance(x, (bool, str)):
        return x
    if isinstance(x, (int,)) and not isinstance(x, bool):
        return ["i", int(x)]
    if isinstance(x, (float, np.floating)):
        return ["f", float(x).hex(), type(x).__name__]
    if isinstance(x, np.integer):
        return ["i", int(x), type(x).__name__]
    if isinstance(x, np.ndarray):
        return ["nd", list(x.shape), str(x.dtype), x.tobytes().hex()]
    if isinstance(x, (list, tuple)):
        return [type(x).__name__] + [canon(v, depth + 1) for v in x]
    if isinstance(x, dict):
        return ["dict"] + [[str(k), canon(v, depth + 1)] for k, v in sorted(x.items(), key=lambda kv: str(kv[0]))]
    if isinstance(x, (datetime.date, datetime.datetime)):
        return ["date", x.isoformat()]
    if hasattr(x, "__dict__"):
        extra = []
        if isinstance(x, float):
            extra = [float(x).hex()]
        return ["obj", type(x).__name__] + extra + [[k, canon(v, depth + 1)] for k, v in sorted(_public_state(x, vars(x)).items())]
    slots = pub_attrs(x)
    if slots:
        return ["obj", type(x).__name__] + [[k, canon(v, depth + 1)] for k, v in sorted(_public_state(x, slots).items())]
    r = repr(x)
    if " at 0x" in r:
        r = "<%s object>" % type(x).__name__          # (a default repr carries an address: not a value)
    return ["repr", r]


def _public_state(x, attrs):
    """The state of an object that its users can observe: instance attributes whose names do not start with an underscore,
    plus the values of the public properties of its class.  "Modifies an object supplied by the caller" is read as "changes what
    the caller can observe of it": a private, never-stale memo the library parks on an object (an `_x` attribute whose content
    is a pure function of the public fields) is not a modification, a changed field is - whether it is stored publicly or behind
    a property.  An object with no public state at all is compared by everything it holds."""
    out = {k: v for k, v in attrs.items() if not str(k).startswith("_")}
    for klass in type(x).__mro__:
        for name, member in vars(klass).items():
            if isinstance(member, property) and not name.startswith("_") and name not in out:
                try:
                    out[name] = getattr(x, name)
                except Exception as e:      # noqa: a property that raises is part of the state too
                    out[name] = "<%s>" % type(e).__name__
    return out if out else dict(attrs)


# ------------------------------------------------------------------------------------------------ constants: snapshot + barrier

class Barrier(object):
    def __init__(self):
        self.armed = False
        self.ids = {}
        self.log = []
        self.benign = 0
        self.private = 0
        self.installed = False


BARRIER = Barrier()
_MISSING = object()
_SNAP = {}


def _catalogue():
    c = repo.mod("geodepy.constants")
    out = {}
    kinds = tuple(getattr(c, k) for k in ("Ellipsoid", "Projection", "Transformation", "TransformationSD"))
    for n in dir(c):
        if n.startswith("_"):
            continue
        v = getattr(c, n, None)
        if isinstance(v, kinds):
            out[n] = v
    return out


def install_barrier():
    """Replace __setattr__ on the four constant classes (after import; the source is untouched) so that every write to a
    catalogue object is logged, including transient writes and writes of an unchanged value."""
    if BARRIER.installed:
        return
    c = repo.mod("geodepy.constants")
    cat = _catalogue()
    for n, v in cat.items():
        BARRIER.ids[id(v)] = n
        sd = getattr(v, "tf_sd", None)
        if sd is not None and id(sd) not in BARRIER.ids:
            BARRIER.ids[id(sd)] = n + ".tf_sd"

    def make(cls):
        def __setattr__(self, name, value):
            if BARRIER.armed:
                who = BARRIER.ids.get(id(self))
                if who is not None:
                    old = getattr(self, name, _MISSING)
                    same = old is not _MISSING and canon(old) == canon(value)
                    if str(name).startswith("_"):
                        BARRIER.private += 1        # a private attribute (a memo the library keeps on its own constant): not observable
                    elif same:
                        BARRIER.benign += 1
                    else:
                        BARRIER.log.append([who, name, canon(None if old is _MISSING else old), canon(value)])
            object.__setattr__(self, name, value)
        cls.__setattr__ = __setattr__
    for cls in (c.Ellipsoid, c.Projection, c.Transformation, c.TransformationSD):
        make(cls)
    _SNAP.clear()
    _SNAP.update({n: canon(v) for n, v in cat.items()})
    BARRIER.installed = True
    BARRIER.armed = True


def snapshot_diff():
    cat = _catalogue()
    out = []
    for n, want in _SNAP.items():
        if n not in cat:
            out.append([n, "deleted"])
        elif canon(cat[n]) != want:
            out.append([n, want, canon(cat[n])])
    for n in cat:
        if n not in _SNAP:
            out.append([n, "added"])
    return out


def restore_constants():
    """Put every constant back to its pristine attribute values (cases must be independent of one another)."""
    # values are restored from a deep copy taken lazily at first use
    if not _PRISTINE:
        return
    was = BARRIER.armed
    BARRIER.armed = False
    try:
        cat = _catalogue()
        for n, attrs in _PRISTINE.items():
            if n in cat:
                for k, v in attrs.items():
                    if k == "tf_sd":
                        continue
                    object.__setattr__(cat[n], k, copy.deepcopy(v))
                for k in list(pub_attrs(cat[n]).keys()):
                    if k not in attrs:
                        object.__delattr__(cat[n], k)
        for n, (obj, attrs) in _PRISTINE_SD.items():
            for k, v in attrs.items():
                object.__setattr__(obj, k, v)
    finally:
        BARRIER.armed = was


_PRISTINE = {}
_PRISTINE_SD = {}


def take_pristine():
    if _PRISTINE:
        return
    for n, v in _catalogue().items():
        _PRISTINE[n] = {k: (val if k == "tf_sd" else copy.deepcopy(val)) for k, val in pub_attrs(v).items()}
        sd = getattr(v, "tf_sd", None)
        if sd is not None:
            _PRISTINE_SD[id(sd)] = (sd, pub_attrs(sd))


# ------------------------------------------------------------------------------------------------ the call catalogue

def _ang(kind, x):
    return S.angle_obj(kind, x)


_ARR_KIND = ["c"]          # representation of the arrays the "caller" passes in the call being built (set by build_args)


def _arr(v):
    """A caller's array: freshly allocated and contiguous, a view into a larger array the caller holds, or Fortran-ordered."""
    x = np.array(v, dtype=float)
    k = _ARR_KIND[0]
    if k == "view" and x.ndim == 2:
        big = np.full((x.shape[0] + 2, x.shape[1] + 3), 7.25)
        big[1:-1, 2:-1] = x
        return big[1:-1, 2:-1]
    if k == "f" and x.ndim == 2:
        return np.asfortranarray(x)
    return x


def _seq(v, kind):
    """A caller's sequence of numbers: list (documented), tuple, float64 array, or a column of a 2-D field book."""
    if kind == "tuple":
        return tuple(v)
    if kind == "array":
        return np.array(v, dtype=float)
    if kind == "column":
        book = np.zeros((len(v), 3))
        book[:, 0] = np.arange(len(v))
        book[:, 1] = v
        return book[:, 1]
    return list(v)


def _date(e):
    return datetime.date(*e)


def _coord_geo(a):
    co = repo.mod("geodepy.coord")
    k = a["notation"]
    an = repo.mod("geodepy.angles")
    mk = {"float": float, "dec": an.DECAngle, "hp": an.dec2hpa, "gon": an.dec2gona, "dms": an.dec2dms, "ddm": an.dec2ddm}[k]
    return co.CoordGeo(mk(a["lat"]), mk(a["lon"]), a["h"], a["H"])


def _angle_obj(cls, x):
    an = repo.mod("geodepy.angles")
    return {"dec": an.DECAngle, "hp": an.dec2hpa, "gon": an.dec2gona, "dms": an.dec2dms, "ddm": an.dec2ddm}[cls](x)


_ZD_OK = ("geo2grid", "grid2geo", "llh2xyz", "xyz2llh", "polar2rect", "rect2polar", "vincdir", "vincinv", "vincinv_utm", "vincdir_utm", "vincinv_utm_x",
          "line_sf", "line_sf_x", "enu2xyz", "xyz2enu", "rho_nu", "rotation_matrix", "vcv_cart2local", "vcv_local2cart", "relative_error", "circ_hz_pu",
          "first_vel", "refractivity", "va_conv", "joins", "radiations", "conform7", "conform14", "mga", "atrf", "ntv2")


def build_args(call):
    """-> (callable, positional args list)"""
    fn, args = _build_args(call)
    if call["a"].get("zd"):
        args = [np.asarray(x) if type(x) is float else x for x in args]
    return fn, args


def _build_args(call):
    fn, a = call["fn"], call["a"]
    _ARR_KIND[0] = a.get("arr", "c")
    cv, gd, stt, sv, tf, c = (repo.mod("geodepy." + m) for m in ("convert", "geodesy", "statistics", "survey", "transform", "constants"))
    ell = S.make_ellipsoid(a["ell"]) if "ell" in a else None
    if fn == "geo2grid":
        return cv.geo2grid, [_ang(a["kind"], a["lat"]), _ang(a["kind"], a["lon"]), a["zone"], ell, S.make_projection(a["prj"])]
    if fn == "grid2geo":
        return cv.grid2geo, [a["zone"], a["east"], a["north"], a["hemi"], ell, S.make_projection(a["prj"])]
    if fn == "llh2xyz":
        return cv.llh2xyz, [_ang(a["kind"], a["lat"]), _ang(a["kind"], a["lon"]), a["h"], ell]
    if fn == "xyz2llh":
        return cv.xyz2llh, [a["x"], a["y"], a["z"], ell]
    if fn == "polar2rect":
        return cv.polar2rect, [a["r"], a["theta"]]
    if fn == "rect2polar":
        return cv.rect2polar, [a["x"], a["y"]]
    if fn == "vincdir":
        return gd.vincdir, [_ang(a["kind"], a["lat"]), _ang(a["kind"], a["lon"]), a["az"], a["s"], ell]
    if fn == "vincinv":
        return gd.vincinv, [a["lat1"], a["lon1"], a["lat2"], a["lon2"], ell]
    if fn in ("vincinv_utm_x", "line_sf_x"):
        # second point given in the same or a neighbouring zone (on that zone's near side)
        dz = a["dz"]
        e2 = a["e2"] if dz == 0 else (500000.0 - dz * (250000.0 + abs(a["e2"] - 500000.0) * 0.25))
        f = gd.vincinv_utm if fn == "vincinv_utm_x" else gd.line_sf
        return f, [a["zone"], a["e1"], a["n1"], a["zone"] + dz, e2, a["n2"], a["hemi"], ell]
    if fn == "date_to_yyyydoy":
        return cv.date_to_yyyydoy, [_date(a["d"])]
    if fn == "yyyydoy_to_date":
        d = _date(a["d"])
        s = "%04d%s%03d" % (d.year, "." if a["dot"] else "", d.timetuple().tm_yday)
        return cv.yyyydoy_to_date, [s]
    if fn == "angle_fn":
        an = repo.mod("geodepy.angles")
        x = a["x"]
        src, name = a["f"].split(">")
        v = {"dec": x, "hp": an.dec2hp(x), "gon": an.dec2gon(x), "rad": math.radians(x)}[src]
        return getattr(an, name), [v]
    if fn == "angle_fn_v":
        an = repo.mod("geodepy.angles")
        xs = np.array(a["xs"], dtype=float)
        if a["f"] == "hp2dec_v":
            xs = np.array([an.dec2hp(float(v)) for v in xs])
        lay = a.get("layout", "c")
        if lay == "strided":                      # every other element of a longer array of the caller's
            big = np.full(2 * len(xs) + 1, 11.0)
            big[1::2] = xs
            xs = big[1::2]
        elif lay == "int":                        # whole degrees held in an integer array
            xs = np.array([int(v) for v in a["xs"]], dtype=np.int64)
        elif lay == "2d":
            xs = np.array([xs, xs[::-1]])
        elif lay == "f32":
            xs = np.array([float(int(v)) + 0.25 for v in a["xs"]], dtype=np.float32)     # (values a float32 holds exactly)
        return getattr(an, a["f"]), [xs]
    if fn == "vincinv_utm":
        return gd.vincinv_utm, [a["zone"], a["e1"], a["n1"], a["zone"], a["e2"], a["n2"], a["hemi"], ell]
    if fn == "vincdir_utm":
        return gd.vincdir_utm, [a["zone"], a["e1"], a["n1"], a["brg"], a["dist"], a["hemi"], ell]
    if fn == "line_sf":
        return gd.line_sf, [a["zone"], a["e1"], a["n1"], a["zone"], a["e2"], a["n2"], a["hemi"], ell]
    if fn == "enu2xyz":
        return gd.enu2xyz, [a["lat"], a["lon"]] + a["v"]
    if fn == "xyz2enu":
        return gd.xyz2enu, [a["lat"], a["lon"]] + a["v"]
    if fn == "rho_nu":
        return (lambda la, e: (gd.rho(la, e), gd.nu(la, e))), [a["lat"], ell]
    if fn == "rotation_matrix":
        return stt.rotation_matrix, [a["lat"], a["lon"]]
    if fn == "vcv_cart2local":
        return stt.vcv_cart2local, [_arr(a["vcv"]), a["lat"], a["lon"]]
    if fn == "vcv_local2cart":
        return stt.vcv_local2cart, [_arr(a["vcv"]), a["lat"], a["lon"]]
    if fn == "error_ellipse":
        return stt.error_ellipse, [_arr(a["vcv"])]
    if fn == "relative_error":
        return stt.relative_error, [a["lat"], a["lon"], _arr(a["v1"]), _arr(a["v2"]), _arr(a["c12"])]
    if fn == "k_val95":
        return stt.k_val95, [a["dof"]]
    if fn == "circ_hz_pu":
        return stt.circ_hz_pu, [a["a"], a["b"]]
    if fn == "first_vel":
        def f(d, lam, nref, T, P, rh, co2):
            p = sv.first_vel_params(lam, None, nref)
            return (p, sv.first_vel_corrn(d, p, T, P, rh), sv.first_vel_corrn(d, p, T, P, rh, CO2_ppm=co2, wavelength=lam),
                    sv.part_h2o_vap_press(T, P, rh), sv.mets_partial_differentials(nref, T, P, rh))
        return f, [a["d"], a["lam"], a["nref"], a["T"], a["P"], a["rh"], a["co2"]]
    if fn == "refractivity":
        return (lambda *q: (sv.phase_refractivity(*q), sv.group_refractivity(*q))), [a["lam"], a["T"], a["P"], a["e"], a["co2"]]
    if fn == "va_conv":
        return sv.va_conv, [a["zen"], a["slope"], a["hi"], a["ht"]]
    if fn == "joins":
        return sv.joins, [a["e1"], a["n1"], a["e2"], a["n2"]]
    if fn == "radiations":
        return sv.radiations, [a["e1"], a["n1"], a["brg"], a["d"], a["rot"], a["k"]]
    if fn == "precise_inst_ht":
        return sv.precise_inst_ht, [_seq(a["angles"], a.get("cont", "list")), a["spacing"], a["offset"]]
    if fn == "conform7":
        tr = TR.make_trans(a["trans"])
        if a.get("neg"):
            tr = -tr
        return tf.conform7, [a["X"][0], a["X"][1], a["X"][2], tr, (_arr(a["vcv"]) if a.get("vcv") is not None else None)]
    if fn == "conform14":
        tr = TR.make_trans(a["trans"])
        if a.get("neg"):
            tr = -tr
        return tf.conform14, [a["X"][0], a["X"][1], a["X"][2], _date(a["epoch"]), tr, (_arr(a["vcv"]) if a.get("vcv") is not None else None)]
    if fn == "mga":
        f = tf.transform_mga94_to_mga2020 if a["dir"] == "94to2020" else tf.transform_mga2020_to_mga94
        args = [a["zone"], a["east"], a["north"], (a["h"] if a["h"] is not None else False), (_arr(a["vcv"]) if a.get("vcv") is not None else None)]
        return f, args
    if fn == "atrf":
        f = tf.transform_atrf2014_to_gda2020 if a["dir"] == "to_gda2020" else tf.transform_gda2020_to_atrf2014
        return f, [a["X"][0], a["X"][1], a["X"][2], _date(a["epoch"]), (_arr(a["vcv"]) if a.get("vcv") is not None else None)]
    if fn == "trans_neg":
        return (lambda t: -t), [TR.make_trans(a["trans"])]
    if fn == "trans_add":
        return (lambda t, d: t + d), [TR.make_trans(a["trans"]), _date(a["epoch"])]
    if fn == "coord_geo":
        def f(o, op, e, p, n):
            an = repo.mod("geodepy.angles")
            T = {"float": float, "dec": an.DECAngle, "hp": an.HPAngle, "gon": an.GONAngle, "dms": an.DMSAngle, "ddm": an.DDMAngle}[n]
            if op.startswith("round"):
                return round(o, int(op[5:]))
            if op == "eq":
                return (o == o, o == _coord_geo(a))
            if op == "repr":
                return (repr(o), str(o))
            if op == "tm_round":
                t = o.tm(e, p)
                return (round(t, 3), t, round(o.cart(e), 3))
            if op == "cart":
                return o.cart(e)
            if op == "tm":
                return o.tm(e, p)
            if op == "notation":
                return o.notation(T)
            return o.cart(e).geo(e, T)
        return f, [_coord_geo(a), a["op"], ell, S.make_projection(a["prj"]), a["to"]]
    if fn == "angle_op":
        def f(x, y, op, k):
            if op.startswith("round"):
                # (HP objects do not promise rounding: C12 names decimal, gradian, DMS and DDM objects)
                return round(x, int(op[5:])) if type(x).__name__ != "HPAngle" else x.dec()
            if op.startswith("to:"):
                m = getattr(x, op[3:], None)         # a class has no method towards its own notation
                return m() if m is not None else x.dec()
            if op == "mod":
                return x % abs(k) if type(x).__name__ in ("DMSAngle", "DDMAngle") else x.dec()
            if op in ("iadd", "isub", "imul", "idiv"):
                # augmented assignment: without an in-place method Python builds a new object and rebinds the local name; the
                # caller's object must be what it was
                import operator
                t = x
                t = {"iadd": operator.iadd, "isub": operator.isub, "imul": operator.imul, "idiv": operator.itruediv}[op](t, y if op in ("iadd", "isub") else k)
                return (t, t is x)
            return {"add": lambda: x + y, "sub": lambda: x - y, "neg": lambda: -x, "abs": lambda: abs(x), "mul": lambda: x * k,
                    "div": lambda: x / k, "lt": lambda: x < y, "eq": lambda: x == y, "hp": lambda: x.hp(), "dms": lambda: (x.dms() if hasattr(x, "dms") else x.ddm()),
                    "rmul": lambda: k * x, "ne": lambda: x != y, "gt": lambda: x > y, "str": lambda: (str(x), repr(x)),
                    "absneg": lambda: (abs(x), abs(-x), -abs(x)), "self": lambda: (x + x, x - x, x == x)}[op]()
        return f, [_angle_obj(a["c1"], a["x"]), _angle_obj(a["c2"], a["y"]), a["op"], a["k"]]
    if fn == "angle_rounded":
        # a DMS / DDM object whose last field was rounded up to 60 by the library's own round() (1d 59m 60.0s, 1d 60.0m)
        an = repo.mod("geodepy.angles")
        v = a["d"] + a["m"] / 60.0
        if a["cls"] == "dms":
            obj = round(an.DMSAngle(a["d"], a["m"], 59.9996, positive=a["pos"]), 3)
        else:
            obj = round(an.DDMAngle(a["d"], a["m"] + 0.99996, positive=a["pos"]), 4)

        def f(x, op):
            return {"dec": lambda: x.dec(), "hp": lambda: x.hp(), "str": lambda: str(x), "add": lambda: x + x, "eq": lambda: x == x,
                    "lt": lambda: x < an.DECAngle(v), "llh2xyz": lambda: cv.llh2xyz(x, x), "rad": lambda: x.rad(),
                    "vincdir": lambda: gd.vincdir(x, x, x, 1000.0)}[op]()
        return f, [obj, a["op"]]
    if fn == "ntv2_obj":
        # the caller reads a grid file once and keeps the object for later queries, possibly with another file open as well
        nt = repo.mod("geodepy.ntv2reader")
        _ntv2_fixture()
        path = _NTV2[0 if a["file"] == "A" else 1]

        pform = a.get("pform", "abs")

        def f(which, la, lo, method):
            g = GRIDS.get(which + pform)
            if g is None:
                # the file named as callers name it: absolute string, relative to the working directory, or a pathlib.Path
                import os
                import pathlib
                named = {"abs": path, "rel": os.path.relpath(path), "Path": pathlib.Path(path)}[pform]
                g = GRIDS[which + pform] = nt.read_ntv2_file(named)
                GRID_CANON[which + pform] = canon(g)        # what the reader handed to the caller
            meta = sorted((n, sg.s_lat, sg.n_lat, sg.e_long, sg.w_long, sg.lat_inc, sg.long_inc, sg.gs_count) for n, sg in g.subgrids.items())
            return (nt.interpolate_ntv2(g, la, lo, method), meta)
        return f, [a["file"], a["lat"], a["lon"], a["method"]]
    if fn == "ntv2":
        nt = repo.mod("geodepy.ntv2reader")
        path = _ntv2_fixture()

        def f(la, lo, fwd, method):
            g = nt.read_ntv2_file(path)
            return (tf.ntv2_2d(g, la, lo, fwd, method), nt.interpolate_ntv2(g, la, lo, method))
        return f, [a["lat"], a["lon"], a["forward"], a["method"]]
    raise HarnessError("unknown call %r" % fn)


_NTV2 = []
GRID_CANON = {}     # their canonical forms as read_ntv2_file returned them
GRIDS = {}          # grid objects the "caller" keeps between calls of one history (cleared by the executor per history)


def _ntv2_fixture():
    """A fixed synthetic .gsb with a 1-degree parent and a 0.25-degree child (written once per process tree, same bytes)."""
    import os
    import tempfile
    from .oracles import ntv2_file as NF
    if _NTV2 and os.path.exists(_NTV2[0]):
        return _NTV2[0]
    path = os.path.join(tempfile.gettempdir(), "gvp_c09_fixture_%d.gsb" % os.getuid())
    parent = {"name": "PARENT", "parent": "NONE", "s_lat": -36.0 * 3600, "e_long": -150.0 * 3600, "lat_inc": 3600.0, "long_inc": 3600.0,
              "nrows": 6, "ncols": 7, "fields": [[1.0, 0.5, 0.25] + [0.0] * 9, [-2.0, 0.125, -0.5, 0.125] + [0.0] * 8,
                                                 [0.5] + [0.0] * 11, [0.25] + [0.0] * 11]}
    child = {"name": "CHILD", "parent": "PARENT", "s_lat": -34.0 * 3600, "e_long": -148.0 * 3600, "lat_inc": 900.0, "long_inc": 900.0,
             "nrows": 9, "ncols": 9, "fields": [[100.0, 0.5, 0.25] + [0.0] * 9, [50.0, 0.125, -0.5] + [0.0] * 9,
                                               [7.0] + [0.0] * 11, [8.0] + [0.0] * 11]}
    tmp = path + ".%d" % os.getpid()
    NF.write(tmp, [NF.sanitise(parent), NF.sanitise(child)])
    os.replace(tmp, path)
    # a second file: same sub-grid name, other extents, spacing and fields (two products open in one session)
    other = {"name": "PARENT", "parent": "NONE", "s_lat": -35.0 * 3600, "e_long": -149.0 * 3600, "lat_inc": 1800.0, "long_inc": 1800.0,
             "nrows": 5, "ncols": 5, "fields": [[-3.0, 0.25, 0.5] + [0.0] * 9, [4.0, -0.125, 0.25] + [0.0] * 9,
                                               [1.5] + [0.0] * 11, [2.5] + [0.0] * 11]}
    extra = {"name": "EXTRA", "parent": "NONE", "s_lat": 10.0 * 3600, "e_long": 20.0 * 3600, "lat_inc": 600.0, "long_inc": 600.0,
             "nrows": 4, "ncols": 4, "fields": [[9.0] + [0.0] * 11, [8.0] + [0.0] * 11, [0.0] * 12, [0.0] * 12]}
    path_b = path[:-4] + "_b.gsb"
    tmp = path_b + ".%d" % os.getpid()
    NF.write(tmp, [NF.sanitise(other), NF.sanitise(extra)])
    os.replace(tmp, path_b)
    _NTV2[:] = [path, path_b]
    return path


# ------------------------------------------------------------------------------------------------ strategies for calls

_u = S.floats(0.0, 1.0)
_ell = S.ellipsoid_spec(280.0, 320.0, shipped_weight=3)
_lat = st.one_of(S.floats(-79.0, 83.0), st.sampled_from([0.0, -37.8, 45.0]))
_lon = st.one_of(S.floats(-179.0, 179.0), st.sampled_from([0.0, 144.96, -0.5]))
_kind = st.sampled_from(["float", "float", "dms", "ddm", "hpa", "deca", "gona"])
_X = TR.point(1e7)
_epoch = st.one_of(st.sampled_from([[2020, 1, 1], [1994, 1, 1], [2015, 1, 1], [2010, 1, 1], [2000, 2, 29], [2037, 7, 19]]),
                   st.tuples(st.integers(1980, 2060), st.integers(1, 12), st.integers(1, 28)).map(list))
_vcv = st.one_of(st.none(), TR.psd3(), TR.psd3_as_held())


def _sd_names():
    c = repo.mod("geodepy.constants")
    return [n for n in TR.shipped_names() if getattr(c, n).tf_sd is not None]


def _dated_sd_names():
    c = repo.mod("geodepy.constants")
    return [n for n in TR.shipped_dated_names() if getattr(c, n).tf_sd is not None]


def _twin_names(dated):
    """Constants that share their (from, to) labels with another constant (e.g. itrf2020_to_itrf2014 and ..._vel)."""
    c = repo.mod("geodepy.constants")
    names = TR.shipped_dated_names() if dated else TR.shipped_names()
    by = {}
    for n in names:
        t = getattr(c, n)
        by.setdefault((t.from_datum, t.to_datum), []).append(n)
    out = [n for g in by.values() if len(g) > 1 for n in g]
    return out or names[:2]


def _fd(fn, **kw):
    return st.fixed_dictionaries(kw).map(lambda a: {"fn": fn, "a": a})


def _family(entry):
    """Two or three calls of the same entry point that share part of their arguments: the first, then copies of it with a
    random subset of the argument names redrawn."""
    def mix(t):
        base, others, masks = t
        out = [base]
        for o, m in zip(others, masks):
            c = {"fn": base["fn"], "a": dict(out[-1]["a"])}
            keys = sorted(c["a"].keys())
            picked = [k for i, k in enumerate(keys) if (m >> i) & 1] or keys[:1]
            if len(picked) == len(keys) and len(keys) > 1:
                picked = picked[:-1]
            for k in picked:
                if k in o["a"]:
                    c["a"][k] = o["a"][k]
                else:
                    c["a"].pop(k, None)         # (optional keys such as the array representation)
            out.append(c)
        return out
    return st.tuples(entry, st.lists(entry, min_size=1, max_size=2), st.lists(st.integers(1, 255), min_size=2, max_size=2)).map(mix)


@st.composite
def _hard_inverse(draw):
    """Inverse problems where the iteration behaves differently from ordinary lines (slow or no convergence, special branches):
    end point 0.001 .. 5 deg from the antipode of the start, the two points on one meridian / parallel / the equator, very
    short lines.  Purity is claimed for every valid argument, so the state such a call may leave behind is part of the history."""
    import math
    k = draw(st.integers(0, 5))
    lat1, lon1 = draw(S.floats(-80.0, 80.0)), draw(S.floats(-179.0, 179.0))
    if k <= 2:
        off = draw(S.log_uniform(1e-3, 5.0))
        b = draw(S.floats(0.0, 2 * math.pi))
        lat2 = max(-89.0, min(89.0, -lat1 + off * math.cos(b)))
        lon2 = lon1 + 180.0 + off * math.sin(b) / max(math.cos(math.radians(lat1)), 0.2)
        lon2 = (lon2 + 180.0) % 360.0 - 180.0
    elif k == 3:
        lat2, lon2 = draw(S.floats(-89.0, 89.0)), lon1 + draw(st.sampled_from([0.0, 1e-9, -1e-7]))
    elif k == 4:
        lat1 = draw(st.sampled_from([0.0, lat1]))
        lat2, lon2 = lat1, draw(S.floats(-179.0, 179.0))
    else:
        lat2, lon2 = lat1 + draw(S.log_uniform(1e-9, 1e-3)), lon1 + draw(S.log_uniform(1e-9, 1e-3))
    return {"fn": "vincinv", "a": {"lat1": lat1, "lon1": lon1, "lat2": lat2, "lon2": lon2, "ell": draw(_ell)}}


def call_strategy(families=False, raw_pool=False):
    shipped7 = st.deferred(lambda: st.sampled_from(TR.shipped_names())).map(lambda n: {"name": n})
    shipped_sd = st.deferred(lambda: st.sampled_from(_sd_names())).map(lambda n: {"name": n})
    dated = st.deferred(lambda: st.sampled_from(TR.shipped_dated_names())).map(lambda n: {"name": n})
    dated_sd = st.deferred(lambda: st.sampled_from(_dated_sd_names())).map(lambda n: {"name": n})
    utm_e = S.floats(150000.0, 850000.0)
    utm_n = S.floats(1500000.0, 9000000.0)
    pool = [
        _fd("geo2grid", lat=_lat, lon=_lon, zone=st.just(0), ell=_ell, prj=st.just("utm"), kind=_kind),
        _fd("grid2geo", zone=st.integers(1, 60), east=utm_e, north=utm_n, hemi=st.sampled_from(["south", "north"]), ell=_ell, prj=st.just("utm")),
        _fd("grid2geo", zone=st.sampled_from(S.ISG_ZONES), east=S.floats(200000.0, 400000.0), north=S.floats(1000000.0, 4000000.0),
            hemi=st.just("south"), ell=st.just("ans"), prj=st.just("isg")),
        _fd("llh2xyz", lat=S.floats(-90, 90), lon=S.floats(-180, 180), h=S.floats(-100, 9000), ell=_ell, kind=_kind),
        _fd("xyz2llh", x=S.floats(-6e6, 6e6), y=S.floats(1e5, 6e6), z=S.floats(-6e6, 6e6), ell=_ell),
        _fd("xyz2llh", x=st.sampled_from([-4052051.7643, -6378137.0, 5000000.0]), y=st.sampled_from([0.0, -0.0]),
            z=st.sampled_from([-2545106.0245, 0.0, -0.0, 3000000.0]), ell=st.sampled_from(["grs80", "ans"])),
        _fd("polar2rect", r=S.floats(0, 1e5), theta=S.floats(0, 360)),
        _fd("rect2polar", x=S.floats(-1e5, 1e5), y=S.floats(-1e5, 1e5)),
        _fd("vincdir", lat=S.floats(-89, 89), lon=_lon, az=S.floats(0, 360), s=S.floats(1.0, 1e7), ell=_ell, kind=_kind),
        _fd("vincinv", lat1=S.floats(-89, 89), lon1=S.floats(-179, 0), lat2=S.floats(-89, 89), lon2=S.floats(0, 160), ell=_ell),
        _hard_inverse(),
        _fd("vincinv_utm", zone=st.integers(1, 60), e1=utm_e, n1=utm_n, e2=utm_e, n2=utm_n, hemi=st.sampled_from(["south", "north"]), ell=st.just("grs80")),
        _fd("vincdir_utm", zone=st.integers(1, 60), e1=S.floats(300000.0, 700000.0), n1=S.floats(2000000.0, 8000000.0), brg=S.floats(0, 360),
            dist=S.floats(1.0, 50000.0), hemi=st.sampled_from(["south", "north"]), ell=st.just("grs80")),
        _fd("vincinv_utm_x", zone=st.integers(2, 59), e1=utm_e, n1=utm_n, e2=utm_e, n2=utm_n, dz=st.sampled_from([0, 1, -1, 1, -1]),
            hemi=st.sampled_from(["south", "north", "South", "North"]), ell=st.sampled_from(["grs80", "grs80", "wgs84", "ans"])),
        _fd("line_sf_x", zone=st.integers(2, 59), e1=utm_e, n1=utm_n, e2=utm_e, n2=utm_n, dz=st.sampled_from([0, 1, -1, 1, -1]),
            hemi=st.sampled_from(["south", "north", "South", "North"]), ell=st.sampled_from(["grs80", "grs80", "wgs84", "ans"])),
        _fd("date_to_yyyydoy", d=_epoch),
        _fd("yyyydoy_to_date", d=_epoch, dot=st.booleans()),
        _fd("angle_fn", x=st.one_of(S.floats(-360, 360), st.sampled_from([0.0, -0.5, 59.0 / 60.0, 179.99999999999, -12.575])),
            f=st.sampled_from(["dec>dec2hp", "dec>dec2gon", "dec>dec2dms", "dec>dec2ddm", "dec>dec2hpa", "hp>hp2dec", "hp>hp2rad", "hp>hp2gon",
                               "hp>hp2dms", "hp>hp2ddm", "gon>gon2dec", "gon>gon2hp", "gon>gon2rad", "dec>dd2sec",
                               "dec>dec2gona", "hp>hp2deca", "hp>hp2gona", "gon>gon2deca", "gon>gon2hpa", "gon>gon2dms", "gon>gon2ddm"])),
        _fd("angle_fn_v", xs=st.lists(S.floats(-360, 360), min_size=1, max_size=6), f=st.sampled_from(["hp2dec_v", "dec2hp_v"])),
        _fd("angle_fn_v", xs=st.lists(S.floats(-360, 360), min_size=1, max_size=6), f=st.sampled_from(["hp2dec_v", "dec2hp_v"]),
            layout=st.sampled_from(["strided", "int", "2d", "f32"])),
        _fd("line_sf", zone=st.integers(1, 60), e1=utm_e, n1=utm_n, e2=utm_e, n2=utm_n, hemi=st.sampled_from(["south", "north"]), ell=st.just("grs80")),
        _fd("enu2xyz", lat=S.floats(-90, 90), lon=S.floats(-180, 180), v=st.lists(S.floats(-1e4, 1e4), min_size=3, max_size=3)),
        _fd("xyz2enu", lat=S.floats(-90, 90), lon=S.floats(-180, 180), v=st.lists(S.floats(-1e4, 1e4), min_size=3, max_size=3)),
        _fd("rho_nu", lat=S.floats(-90, 90), ell=_ell),
        _fd("rotation_matrix", lat=S.floats(-90, 90), lon=S.floats(-180, 180)),
        _fd("vcv_cart2local", vcv=TR.psd3(), lat=S.floats(-90, 90), lon=S.floats(-180, 180)),
        _fd("vcv_local2cart", vcv=st.one_of(TR.psd3(), st.lists(st.lists(S.floats(0.0, 1.0), min_size=1, max_size=1), min_size=3, max_size=3)),
            lat=S.floats(-90, 90), lon=S.floats(-180, 180)),
        _fd("error_ellipse", vcv=TR.psd3()),
        # near-circular horizontal blocks (equal variances up to a few per cent, small covariance): where special cases for "round"
        # ellipses live
        _fd("error_ellipse", vcv=st.tuples(S.floats(1e-6, 1.0), S.floats(-0.04, 0.04), S.floats(-0.02, 0.02), S.floats(0.1, 2.0)).map(
            lambda t: [[t[0], t[0] * t[2], 0.0], [t[0] * t[2], t[0] * (1.0 + t[1]), 0.0], [0.0, 0.0, t[0] * t[3]]])),
        _fd("relative_error", lat=S.floats(-90, 90), lon=S.floats(-180, 180), v1=TR.psd3(), v2=TR.psd3(),
            c12=st.just([[0.0] * 3] * 3)),
        _fd("k_val95", dof=st.integers(-5, 200)),
        _fd("circ_hz_pu", a=S.floats(0.001, 1.0), b=S.floats(0.0, 0.001)),
        _fd("first_vel", d=S.floats(1.0, 5e4), lam=st.sampled_from([0.532, 0.633, 0.85, 0.91]), nref=st.just(1.00028), T=S.floats(-20, 45),
            P=S.floats(650, 1100), rh=S.floats(0.0, 40.0), co2=st.sampled_from([300, 420, 450, 600])),
        _fd("refractivity", lam=S.floats(0.4, 1.6), T=S.floats(-20, 45), P=S.floats(650, 1100), e=S.floats(0, 40), co2=S.floats(300, 600)),
        _fd("va_conv", zen=S.floats(1.0, 179.0), slope=S.floats(0.1, 5e4), hi=S.floats(-5, 5), ht=S.floats(-5, 5)),
        _fd("joins", e1=S.floats(0, 1e6), n1=S.floats(0, 1e7), e2=S.floats(0, 1e6), n2=S.floats(0, 1e7)),
        _fd("radiations", e1=S.floats(0, 1e6), n1=S.floats(0, 1e7), brg=S.floats(0, 360), d=S.floats(0, 1e5), rot=S.floats(-180, 180), k=S.floats(0.999, 1.001)),
        _fd("precise_inst_ht", angles=st.lists(S.floats(80.0, 100.0), min_size=3, max_size=8, unique=True), spacing=st.sampled_from([0.1, 0.2, 0.5]),
            offset=S.floats(0.0, 2.0), cont=st.sampled_from(["list", "list", "tuple", "array", "column"])),
        _fd("conform7", trans=shipped7, neg=st.booleans(), X=_X, vcv=st.none()),
        _fd("conform7", trans=shipped_sd, neg=st.booleans(), X=_X, vcv=_vcv),
        _fd("conform14", trans=dated, neg=st.booleans(), X=_X, epoch=_epoch, vcv=st.none()),
        _fd("conform14", trans=dated_sd, neg=st.booleans(), X=_X, epoch=_epoch, vcv=_vcv),
        _fd("conform14", trans=dated_sd, neg=st.booleans(), X=_X, epoch=_epoch, vcv=TR.psd3()),
        _fd("mga", dir=st.sampled_from(["94to2020", "2020to94"]), zone=st.integers(46, 59), east=S.floats(150000.0, 850000.0),
            north=S.floats(3500000.0, 9000000.0), h=st.one_of(st.none(), S.floats(-100, 3000)), vcv=_vcv),
        _fd("atrf", dir=st.sampled_from(["to_gda2020", "to_atrf"]), X=_X, epoch=_epoch, vcv=_vcv),
        _fd("trans_neg", trans=shipped7),
        _fd("trans_add", trans=dated, epoch=_epoch),
        _fd("coord_geo", lat=S.floats(-60, -5), lon=S.floats(112, 154), h=st.one_of(st.none(), st.just(0.0), S.floats(-100, 3000)),
            H=st.one_of(st.none(), st.just(0.0), S.floats(-100, 3000)), notation=st.sampled_from(["float", "dec", "hp", "gon", "dms", "ddm"]),
            op=st.sampled_from(["cart", "tm", "notation", "roundtrip"]), to=st.sampled_from(["float", "dec", "hp", "gon", "dms", "ddm"]),
            ell=st.sampled_from(["grs80", "ans"]), prj=st.just("utm")),
        _fd("angle_op", c1=st.sampled_from(["dec", "hp", "gon", "dms", "ddm"]), c2=st.sampled_from(["dec", "hp", "gon", "dms", "ddm"]),
            x=S.floats(-180, 180), y=S.floats(-180, 180), op=st.sampled_from(["add", "sub", "neg", "abs", "mul", "div", "lt", "eq", "hp", "dms"]),
            k=st.sampled_from([2, 0.5, -3, 1.5])),
        # the rest of the objects' interface on an object the caller keeps: rounding, modulo, reflected product, every conversion method
        _fd("angle_op", c1=st.sampled_from(["dec", "hp", "gon", "dms", "ddm"]), c2=st.sampled_from(["dec", "hp", "gon", "dms", "ddm"]),
            x=st.one_of(S.floats(-180, 180), S.floats(0, 90)), y=S.floats(-180, 180),
            op=st.sampled_from(["round0", "round1", "round2", "round5", "round8", "round1", "round3", "mod", "rmul", "ne", "gt", "str", "absneg", "self",
                                "iadd", "isub", "imul", "idiv",
                                "to:dec", "to:rad", "to:hp", "to:gon", "to:deca", "to:hpa", "to:gona", "to:dms", "to:ddm"]),
            k=st.sampled_from([2, 0.5, -3, 1.5, 7.25])),
    ]
    pool += [
        _fd("angle_op", c1=st.sampled_from(["dms", "ddm"]), c2=st.sampled_from(["dec", "dms"]), x=S.floats(-360, 360), y=st.just(0.0), op=st.just("mod"),
            k=st.sampled_from([360, 180, 90, 7.25, 0.5])),
        _fd("coord_geo", lat=S.floats(-60, -5), lon=S.floats(112, 154), h=st.one_of(st.none(), st.just(0.0), S.floats(-100, 3000)),
            H=st.one_of(st.none(), S.floats(-100, 3000)), notation=st.sampled_from(["float", "dec", "hp", "gon", "dms", "ddm"]),
            op=st.sampled_from(["round0", "round2", "round5", "eq", "repr", "tm_round"]), to=st.just("float"),
            ell=st.just("grs80"), prj=st.just("utm")),
    ]
    pool += [
        _fd("ntv2_obj", file=st.sampled_from(["A", "B"]), lat=S.floats(-34.9, -33.1), lon=S.floats(147.1, 148.9),
            method=st.sampled_from(["bilinear", "bicubic"])),
        _fd("ntv2_obj", file=st.sampled_from(["A", "B", "B"]), lat=S.floats(-34.9, -33.1), lon=S.floats(147.1, 148.9),
            method=st.sampled_from(["bilinear", "bicubic"]), pform=st.sampled_from(["abs", "rel", "Path"])),
        _fd("conform7", trans=shipped_sd, neg=st.booleans(), X=_X.map(lambda p: [int(round(v)) for v in p]), vcv=st.none()),
        _fd("llh2xyz", lat=st.integers(-90, 90), lon=st.integers(-180, 180), h=st.integers(-100, 9000), ell=_ell, kind=st.just("float")),
        _fd("angle_rounded", cls=st.sampled_from(["dms", "ddm"]), d=st.integers(0, 80), m=st.sampled_from([0, 29, 58, 59]), pos=st.booleans(),
            op=st.sampled_from(["dec", "hp", "str", "add", "eq", "lt", "llh2xyz", "rad", "vincdir"])),
        _fd("ntv2", lat=S.floats(-35.9, -31.1), lon=S.floats(144.1, 149.9), forward=st.booleans(), method=st.sampled_from(["bilinear", "bicubic"])),
        _fd("ntv2", lat=S.floats(-33.9, -32.1), lon=S.floats(146.1, 147.9), forward=st.booleans(), method=st.sampled_from(["bilinear", "bicubic"])),
    ]
    own_set = st.fixed_dictionaries({"p": TR.random_p7(), "sd": st.one_of(st.none(), TR.random_sd7()), "pnum": TR.pnum_kind})
    own_dated = st.fixed_dictionaries({"p": TR.random_p7().map(lambda p: p[:4] + [v * 0.5 for v in p[4:]]),
                                       "rates": st.lists(S.floats(-0.01, 0.01), min_size=7, max_size=7),
                                       "epoch": st.sampled_from([[2010, 1, 1], [2020, 1, 1], [2005, 6, 15]]),
                                       "sd": st.one_of(st.none(), TR.random_sd7()), "sdr": st.none()}).map(
        lambda s: dict(s, sdr=([0.0] * 7 if s["sd"] is not None else None)))
    pool += [
        _fd("conform7", trans=own_set, X=_X, vcv=_vcv, neg=st.booleans()),
        _fd("conform14", trans=own_dated, X=_X, epoch=_epoch, vcv=_vcv, neg=st.booleans()),
    ]
    twins14 = st.deferred(lambda: st.sampled_from(_twin_names(True))).map(lambda n: {"name": n})
    twins7 = st.deferred(lambda: st.sampled_from(_twin_names(False))).map(lambda n: {"name": n})
    pool += [
        _fd("conform14", trans=twins14, neg=st.booleans(), X=_X, epoch=_epoch, vcv=st.none()),
        _fd("conform7", trans=twins7, neg=st.booleans(), X=_X, vcv=st.none()),
        _fd("trans_add", trans=twins14, epoch=_epoch),
    ]
    # time-dependent and covariance calls carry the state the property worries about: weight them up
    pool += [e for e in pool[-3:]] + [
        _fd("conform14", trans=dated_sd, neg=st.booleans(), X=_X, epoch=_epoch, vcv=TR.psd3()),
        _fd("conform7", trans=shipped_sd, neg=st.booleans(), X=_X, vcv=TR.psd3()),
        _fd("atrf", dir=st.sampled_from(["to_gda2020", "to_atrf"]), X=_X, epoch=_epoch, vcv=TR.psd3()),
        _fd("mga", dir=st.sampled_from(["94to2020", "2020to94"]), zone=st.integers(46, 59), east=S.floats(150000.0, 850000.0),
            north=S.floats(3500000.0, 9000000.0), h=st.one_of(st.none(), S.floats(-100, 3000)), vcv=TR.psd3()),
    ]
    def with_rep(entry):
        # calls that carry covariance arrays: the array may be a view into a larger array of the caller's, or Fortran-ordered
        def inject(t):
            call, kind, zd = t
            if any(call["a"].get(k) is not None for k in ("vcv", "v1")) and kind != "c":
                call = {"fn": call["fn"], "a": dict(call["a"], arr=kind)}
            if zd and call["fn"] in _ZD_OK:
                # plain numbers handed over as numpy 0-d arrays (an element of a table taken with [i, j, ...], np.asarray(x)): the only
                # representation of a scalar that a callee can modify in place
                call = {"fn": call["fn"], "a": dict(call["a"], zd=True)}
            return call
        return st.tuples(entry, st.sampled_from(["c", "c", "c", "view", "f"]), st.sampled_from([False] * 7 + [True])).map(inject)
    if raw_pool:
        return pool
    pool = [with_rep(e) for e in pool]
    if families:
        sz = _signed_zero_twins(st.one_of(*pool))
        return st.one_of(*([_family(e) for e in pool] + [sz, sz, sz]))
    return st.one_of(*pool)


_SZ_KEYS = ("lat", "lon", "lat1", "lon1", "lat2", "lon2", "az", "brg", "theta", "x", "y", "z", "h", "rot", "rh", "T", "hi", "ht", "offset")


def _signed_zero_twins(calls):
    """The same call twice with one number 0.0 in one and -0.0 in the other (either order): the two compare and hash equal, so a
    memo keyed on the arguments serves one the other's result - whose signed zeros (and whatever depends on them) may differ."""
    def twin(t):
        call, pick, flip = t
        keys = [k for k in _SZ_KEYS if isinstance(call["a"].get(k), float)]
        if not keys:
            return [call, copy.deepcopy(call)]
        k = keys[pick % len(keys)]
        a = {"fn": call["fn"], "a": dict(call["a"], **{k: 0.0})}
        b = {"fn": call["fn"], "a": dict(call["a"], **{k: -0.0})}
        return [b, a] if flip else [a, b]
    return st.tuples(calls, st.integers(0, 50), st.booleans()).map(twin)


ANGLE_FNS = ["dec>dec2hp", "dec>dec2gon", "dec>dec2dms", "dec>dec2ddm", "dec>dec2hpa", "hp>hp2dec", "hp>hp2rad", "hp>hp2gon", "hp>hp2dms", "hp>hp2ddm",
             "gon>gon2dec", "gon>gon2hp", "gon>gon2rad", "dec>dd2sec", "dec>dec2gona", "hp>hp2deca", "hp>hp2gona", "gon>gon2deca", "gon>gon2hpa",
             "gon>gon2dms", "gon>gon2ddm"]
ANGLE_OPS = ["add", "sub", "neg", "abs", "mul", "div", "lt", "eq", "hp", "dms", "round0", "round2", "round5", "mod", "rmul", "ne", "gt", "str", "absneg",
             "self", "iadd", "isub", "imul", "idiv", "to:dec", "to:rad", "to:hp", "to:gon", "to:deca", "to:hpa", "to:gona", "to:dms", "to:ddm"]
CLASSES = ["dec", "hp", "gon", "dms", "ddm"]


def function_axis():
    """[(label, strategy of calls)]: the catalogue cut along its *function* axis - every module-level angle function, every
    operator / method of every angle class, every coordinate-object operation, and every other entry of the pool - so that an
    enumeration can visit each library function at least once per run, whatever the random draws of the other sub-checks hit."""
    x = st.one_of(S.floats(-360, 360), st.sampled_from([0.0, -0.5, 59.0 / 60.0, 179.99999999999, -12.575]))
    out = [("angle_fn:" + f, _fd("angle_fn", x=x, f=st.just(f))) for f in ANGLE_FNS]
    out += [("angle_fn_v:%s:%s" % (f, lay), _fd("angle_fn_v", xs=st.lists(S.floats(-360, 360), min_size=1, max_size=6), f=st.just(f), layout=st.just(lay)))
            for f in ("hp2dec_v", "dec2hp_v") for lay in ("c", "strided", "int")]
    for c in CLASSES:
        for op in ANGLE_OPS:
            out.append(("angle_op:%s:%s" % (c, op), _fd("angle_op", c1=st.just(c), c2=st.sampled_from(CLASSES), x=S.floats(-180, 180), y=S.floats(-180, 180),
                                                         op=st.just(op), k=st.sampled_from([2, 0.5, -3, 1.5, 360]))))
    for op in ["dec", "hp", "str", "add", "eq", "lt", "llh2xyz", "rad", "vincdir"]:
        out.append(("angle_rounded:" + op, _fd("angle_rounded", cls=st.sampled_from(["dms", "ddm"]), d=st.integers(0, 80), m=st.sampled_from([0, 29, 58, 59]),
                                               pos=st.booleans(), op=st.just(op))))
    for op in ["cart", "tm", "notation", "roundtrip", "round2", "eq", "repr", "tm_round"]:
        out.append(("coord_geo:" + op, _fd("coord_geo", lat=S.floats(-60, -5), lon=S.floats(112, 154), h=st.one_of(st.none(), S.floats(-100, 3000)),
                                            H=st.one_of(st.none(), S.floats(-100, 3000)), notation=st.sampled_from(["float", "dec", "hp", "gon", "dms", "ddm"]),
                                            op=st.just(op), to=st.sampled_from(["float", "dec", "hp", "gon", "dms", "ddm"]),
                                            ell=st.sampled_from(["grs80", "ans"]), prj=st.just("utm"))))
    seen = {}
    for e in call_strategy(raw_pool=True):
        out.append((None, e))          # labelled by the function name of the calls it produces (see C09.enumerate_functions)
    return out


TIME_OR_COV = ("conform14", "atrf", "trans_add", "mga")


def is_time_or_cov(call):
    return call["fn"] in TIME_OR_COV or call["a"].get("vcv") is not None
