"""Core data types of the harness: sub-checks, failures, statistics, exception bucketing."""
import hashlib
import json
import math
import os
import sys
import traceback

from . import repo


class Fail(Exception):
    """The stated property is violated on this case."""

    def __init__(self, what, expected=None, observed=None, bucket=None):
        Exception.__init__(self, what)
        self.what = what
        self.expected = expected
        self.observed = observed
        self.bucket = bucket or what.split(":")[0]


class HarnessError(Exception):
    """Something is wrong with the harness or an oracle (never a verdict about the code under test)."""


class Discard(Exception):
    """The generated case is outside the property's domain (counted, reported, never a verdict)."""


def jsonable(x):
    """Plain-JSON rendering of a case / observation (floats stay floats; inf/nan become strings)."""
    import numpy as np
    if isinstance(x, dict):
        return {str(k): jsonable(v) for k, v in x.items()}
    if isinstance(x, (list, tuple)):
        return [jsonable(v) for v in x]
    if isinstance(x, np.ndarray):
        return jsonable(x.tolist())
    if isinstance(x, (np.floating,)):
        x = float(x)
    if isinstance(x, (np.integer,)):
        return int(x)
    if isinstance(x, float):
        if math.isnan(x) or math.isinf(x):
            return repr(x)
        return x
    if isinstance(x, (int, str, bool)) or x is None:
        return x
    return repr(x)


def case_hash(case):
    s = json.dumps(jsonable(case), sort_keys=True)
    return int.from_bytes(hashlib.blake2b(s.encode(), digest_size=8).digest(), "big")


def lib_exception_failure(exc):
    """Classify an exception raised while running a check on a valid case.

    If any traceback frame lies inside the repository the code under test raised (or let escape) it:
    that is a violation of 'defined for every valid input', bucketed by (type, innermost repo frame).
    Otherwise the harness itself is at fault.
    """
    tb = traceback.extract_tb(exc.__traceback__)
    inner = None
    for fr in tb:
        if repo.is_repo_file(fr.filename):
            inner = fr
    if inner is None:
        return None
    where = "%s:%s" % (os.path.relpath(inner.filename, repo.REPO), inner.name)
    return Fail("exception: %s in %s: %s" % (type(exc).__name__, where, exc),
                expected="a result (the case is inside the property's domain)",
                observed="%s: %s" % (type(exc).__name__, exc),
                bucket="exception %s in %s" % (type(exc).__name__, where))


class SubCheck(object):
    """One independent executable relation of a property.

    strategy     Hypothesis strategy producing plain-JSON cases (dicts), or None for enumerations
    check        check(case) -> None; raises Fail on violation, Discard when outside the domain
    enumerate    enumerate(tier, seed, shard, nshards) -> iterable of cases (finite-domain sub-checks)
    nontrivial   predicate on a case
    classes      case -> iterable of labels (distribution is reported in evidence)
    quick/thorough  number of generated cases per tier (total over shards)
    shards_quick/shards_thorough  how many worker processes split that number
    """

    def __init__(self, name, check, strategy=None, enumerate=None, nontrivial=None, classes=None,
                 quick=1000, thorough=20000, shards_quick=1, shards_thorough=8, rule="", exhaustive=False,
                 matchers=None, setup=None, use_target=False, seq_groups=None, seq_len=3, fresh=None, fresh_first=None):
        # fresh = (processes in the quick tier, in the thorough tier, cases per process): extra runs in pristine processes
        # fresh_first(case, k) -> case: optional bias for the very first call of such a process (e.g. unusual argument types)
        self.fresh = fresh
        self.fresh_first = fresh_first
        self.use_target = use_target
        self.name = name
        self.check = check
        self.strategy = strategy
        self.enumerate = enumerate
        self.nontrivial = nontrivial or (lambda c: True)
        self.classes = classes or (lambda c: ())
        self.quick = quick
        self.thorough = thorough
        self.shards_quick = shards_quick
        self.shards_thorough = shards_thorough
        self.rule = rule
        self.exhaustive = exhaustive
        self.matchers = matchers or {}
        self.setup = setup
        if seq_groups and strategy is not None:
            self._wrap_sequences(seq_groups, seq_len)

    def _wrap_sequences(self, groups, max_len):
        """Turn single-call cases into short call histories {"seq": [case, sibling, ...]}: every sibling is the previous
        case with some *groups* of fields redrawn.  Calls that share part of their arguments with the preceding call
        are what exposes results that depend on earlier calls (memoisation on an incomplete key, state left behind)."""
        from hypothesis import strategies as st
        base, check1, nt1, cl1 = self.strategy, self.check, self.nontrivial, self.classes

        @st.composite
        def seq(draw):
            out = [draw(base)]
            n = draw(st.sampled_from([0, 0, 1, 1, 2, max_len - 1]))
            for _ in range(n):
                other = draw(base)
                mask = draw(st.integers(1, max(1, 2 ** len(groups) - 2)))
                c = dict(out[-1])
                for gi, g in enumerate(groups):
                    if (mask >> gi) & 1:
                        for k in g:
                            if k in other:
                                c[k] = other[k]
                out.append(c)
            return {"seq": out}

        def check(case):
            cases = case["seq"] if isinstance(case, dict) and "seq" in case else [case]
            ran = 0
            for c in cases:
                try:
                    check1(c)
                    ran += 1
                except Discard:
                    continue
            if not ran:
                raise Discard()

        self.strategy = seq()
        self.check = check
        self.nontrivial = lambda case: any(nt1(c) for c in (case["seq"] if "seq" in case else [case]))

        def classes(case):
            cs = case["seq"] if "seq" in case else [case]
            out = set()
            for c in cs:
                out.update(cl1(c))
            out.add("calls:%d" % len(cs))
            return sorted(out)
        self.classes = classes

    def run_case(self, case):
        """Run the relation on one case. Returns None, or a Fail. Raises HarnessError / Discard."""
        try:
            self.check(case)
        except Fail as f:
            return f
        except (Discard, HarnessError):
            raise
        except (KeyboardInterrupt, SystemExit, MemoryError):
            raise
        except Exception as e:  # noqa
            f = lib_exception_failure(e)
            if f is None:
                raise HarnessError("harness exception in %s on %r: %s" % (
                    self.name, case, "".join(traceback.format_exception(type(e), e, e.__traceback__))))
            return f
        return None


_IN_HYPOTHESIS = [False]


def target(value, label):
    """hypothesis.target that is a no-op during replays / enumerations."""
    if _IN_HYPOTHESIS[0]:
        try:
            import hypothesis
            if isinstance(value, float) and (math.isnan(value) or math.isinf(value)):
                return
            hypothesis.target(float(value), label=label)
        except Exception:
            pass


def is_seq(x, n):
    """Is x a sequence of n results?  (The statements fix values, not the container: tuple, list and 1-D array all qualify.)"""
    try:
        return not isinstance(x, (str, bytes, dict)) and len(x) == n
    except TypeError:
        return False


def pub_attrs(obj):
    """Instance attributes of obj as a dict, whether it keeps them in __dict__ or in __slots__."""
    d = dict(getattr(obj, "__dict__", {}) or {})
    for klass in type(obj).__mro__:
        for name in getattr(klass, "__slots__", ()) or ():
            if isinstance(name, str) and name not in ("__dict__", "__weakref__") and hasattr(obj, name):
                d.setdefault(name, getattr(obj, name))
    return d


class Stats(object):
    def __init__(self):
        self.evaluations = 0
        self.nontrivial = set()
        self.classes = {}
        self.discarded = 0
        self.excluded_known = 0
        self.samples = []
        self._seen = 0
        self.metrics = {}

    def record(self, sc, case):
        self.evaluations += 1
        try:
            if sc.nontrivial(case):
                self.nontrivial.add(case_hash(case))
        except Exception:
            pass
        try:
            for lab in sc.classes(case):
                self.classes[lab] = self.classes.get(lab, 0) + 1
        except Exception:
            pass
        # deterministic thinning: keep the 1st, 2nd, 4th, 8th ... case (at most 12 per shard)
        self._seen += 1
        n = self._seen
        if n & (n - 1) == 0 and len(self.samples) < 12:
            self.samples.append(jsonable(case))

    def as_dict(self):
        return {"evaluations": self.evaluations, "nontrivial": self.nontrivial, "classes": self.classes,
                "discarded": self.discarded, "excluded_known": self.excluded_known, "samples": self.samples,
                "metrics": self.metrics}


_METRICS = {}


def metric(name, value):
    """Keep the running maximum of a diagnostic (e.g. worst observed error / tolerance)."""
    try:
        v = float(value)
    except Exception:
        return
    if math.isnan(v):
        return
    if name not in _METRICS or v > _METRICS[name]:
        _METRICS[name] = v


def take_metrics():
    d = dict(_METRICS)
    _METRICS.clear()
    return d


def eprint(*a):
    print(*a, file=sys.stderr)
    sys.stderr.flush()
