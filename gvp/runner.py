"""CLI of the harness.

    python -m gvp.runner <ID> quick|thorough
    python -m gvp.runner <ID> --replay <file>

Exit codes: 0 property held on everything explored; 1 at least one `VIOLATION property=<ID> replay=<path>` line
was printed; 2 harness / oracle error (never a verdict).
"""
import glob
import importlib
import json
import multiprocessing
import os
import zlib
import sys
import time
import traceback

from . import core
from .core import Fail, HarnessError, Discard, Stats, jsonable, eprint

HERE = os.path.dirname(os.path.dirname(os.path.abspath(__file__)))   # /verif


def _load(prop):
    return importlib.import_module("gvp.checks." + prop)


def _subcheck(module, name):
    base = name.split("@")[0]
    for sc in module.SUBCHECKS:
        if sc.name == base:
            return sc
    raise HarnessError("unknown sub-check %s" % name)


# ------------------------------------------------------------------------------------------------ workers

class _Violation(Exception):
    pass


def _fail_record(sc, case, f):
    return {"subcheck": sc.name, "case": jsonable(case), "what": f.what, "bucket": f.bucket,
            "expected": jsonable(f.expected), "observed": jsonable(f.observed), "history": None}


def _run_hypothesis(sc, n, seed, matchers, shrink=True, fresh_k=None):
    import hypothesis
    from hypothesis import given, settings, HealthCheck, Phase
    import collections
    stats = Stats()
    state = {"bucket": None, "last": None, "others": {}, "first": None, "history": None}
    recent = collections.deque(maxlen=40)

    def body(case):
        if fresh_k is not None and sc.fresh_first is not None and stats.evaluations == 0 and stats.discarded == 0:
            # the very first library call of this (pristine) process: biased towards unusual argument representations
            if isinstance(case, dict) and "seq" in case:
                case = {"seq": [sc.fresh_first(case["seq"][0], fresh_k)] + list(case["seq"][1:])}
            else:
                case = sc.fresh_first(case, fresh_k)
        if matchers and isinstance(case, dict) and "seq" in case:
            # a call sequence: only the calls that fall under a known finding are left out, the rest of the sequence runs
            kept = [c for c in case["seq"] if not any(m(c) for m in matchers)]
            stats.excluded_known += len(case["seq"]) - len(kept)
            if not kept:
                return
            case = {"seq": kept}
        else:
            for m in matchers:
                if m(case):
                    stats.excluded_known += 1
                    return
        try:
            f = sc.run_case(case)
        except Discard:
            stats.discarded += 1
            return
        stats.record(sc, case)
        if f is not None:
            if state["bucket"] is None:
                state["bucket"] = f.bucket
                state["first"] = (case, f)
                state["history"] = [jsonable(c) for c in recent]
        recent.append(case)
        if f is not None:
            if f.bucket == state["bucket"]:
                state["last"] = (case, f)
                raise _Violation(f.bucket)
            state["others"].setdefault(f.bucket, (case, f))

    phases = [Phase.generate] + ([Phase.target] if getattr(sc, "use_target", False) else []) + \
        ([Phase.shrink] if shrink else [])
    try:    # bound the shrinker (default hard cap is 300 s); a budget hit keeps the partly shrunk case
        import hypothesis.internal.conjecture.engine as _eng
        _eng.MAX_SHRINKING_SECONDS = float(os.environ.get("VERIF_SHRINK_S", "40"))
    except Exception:
        pass
    st = settings(max_examples=max(1, n), database=None, deadline=None, derandomize=False,
                  report_multiple_bugs=False, phases=phases, verbosity=hypothesis.Verbosity.quiet,
                  suppress_health_check=[HealthCheck.too_slow, HealthCheck.data_too_large,
                                         HealthCheck.large_base_example, HealthCheck.filter_too_much],
                  print_blob=False)
    test = hypothesis.seed(seed)(st(given(sc.strategy)(body)))
    failures = []
    harness = None
    core._IN_HYPOTHESIS[0] = True
    try:
        test()
    except _Violation:
        case, f = state["last"]
        failures.append(_fail_record(sc, case, f))
    except HarnessError as e:
        harness = str(e)
    except hypothesis.errors.HypothesisException as e:
        if state["first"] is not None and isinstance(e, hypothesis.errors.Flaky):
            # The relation failed on a generated case and held when Hypothesis re-ran the same case: the harness
            # and its oracles are deterministic functions of the case, so the code under test gave a result that
            # depends on earlier calls (hidden state).  The wrong result was observed; report it with the calls
            # that preceded it so that the replay can re-create the history.
            case, f = state["first"]
            rec = _fail_record(sc, case, f)
            rec["what"] = f.what + " [result depends on earlier calls: holds when the case is run alone]"
            rec["history"] = state["history"]
            failures.append(rec)
        else:
            # Unsatisfiable / FailedHealthCheck: generator problem in the harness
            harness = "hypothesis: %s: %s" % (type(e).__name__, e)
    finally:
        core._IN_HYPOTHESIS[0] = False
    for b, (case, f) in state["others"].items():
        failures.append(_fail_record(sc, case, f))
    stats.metrics = core.take_metrics()
    return stats, failures, harness


# ------------------------------------------------------------------------------------------------ other environments
# The statements quantify over arguments, not over the process the library happens to run in: they hold under `python -O`, with
# another hash seed, in another time zone / locale, with numpy's error state and print options set by the application, from
# another working directory.  Every check therefore repeats a slice of its generated exploration in child interpreters started
# that way (sub-check names "<name>@env:<environment>").  Each environment is something a user may legitimately have and that the
# unchanged library is indifferent to; a failing case records its environment and --replay re-creates it.

_ENUM_LIMIT = [None]


def environments(seed):
    hs = 1 + (seed * 7919 + 13) % 4000000000
    return {
        "optimised": {"flags": ["-O"], "inproc": False,
                      "env": {"PYTHONHASHSEED": str(hs), "TZ": "Pacific/Kiritimati", "LC_ALL": "C", "LANG": "C", "PYTHONUTF8": "0",
                              "PYTHONCOERCECLOCALE": "0"},
                      "what": "python -O (no assert statements, __debug__ False), hash seed %d, TZ=Pacific/Kiritimati (UTC+14), C locale "
                              "without UTF-8 coercion" % hs},
        "application-state": {"flags": [], "inproc": True,
                              "env": {"PYTHONHASHSEED": str(hs + 1), "TZ": "America/Anchorage"},
                              "what": "hash seed %d, TZ=America/Anchorage, numpy print options set by the application (precision=3, "
                                      "suppress, legacy='1.25'), decimal context prec=6 / ROUND_DOWN, thread switch interval 10 us, umask 077"
                                      % (hs + 1)},
    }


def _apply_environment(name):
    """In-process part of an environment (the interpreter flags and variables were set by whoever started this process)."""
    if name == "application-state":
        import decimal
        import numpy as np
        np.set_printoptions(precision=3, suppress=True, threshold=5, legacy="1.25")
        # the application's decimal arithmetic (a report with six significant digits, truncating): thread-local, so also the
        # template new threads start from
        for ctx in (decimal.getcontext(), decimal.DefaultContext):
            ctx.prec = 6
            ctx.rounding = decimal.ROUND_DOWN
        sys.setswitchinterval(1e-5)
        os.umask(0o077)


def _spawn_environment(name, spec, argv, extra_env):
    import subprocess
    env = dict(os.environ)
    env.update(spec["env"])
    env.update(extra_env)
    env["GVP_ENV_CHILD"] = name
    return subprocess.Popen([sys.executable] + spec["flags"] + ["-m", "gvp.runner"] + argv, env=env, cwd=HERE,
                            stdout=subprocess.PIPE, stderr=subprocess.STDOUT, text=True)


def _run_enumeration(sc, tier, seed, shard, nshards, matchers):
    stats = Stats()
    failures = {}
    harness = None
    try:
        for case in sc.enumerate(tier, seed, shard, nshards):
            if _ENUM_LIMIT[0] is not None and stats.evaluations + stats.discarded >= _ENUM_LIMIT[0]:
                break
            skip = False
            for m in matchers:
                if m(case):
                    stats.excluded_known += 1
                    skip = True
                    break
            if skip:
                continue
            try:
                f = sc.run_case(case)
            except Discard:
                stats.discarded += 1
                continue
            stats.record(sc, case)
            if f is not None:
                rec = failures.get(f.bucket)
                if rec is None:
                    rec = _fail_record(sc, case, f)
                    rec["count"] = 0
                    failures[f.bucket] = rec
                rec["count"] += 1
                if len(failures) > 24:
                    break
    except HarnessError as e:
        harness = str(e)
    stats.metrics = core.take_metrics()
    return stats, list(failures.values()), harness


def _calltrace_start():
    """GVP_CALLTRACE=<file>: record which functions of the code under test each worker enters (tools/api_coverage.py reads it).
    A diagnostic of the harness only; nothing in /repo is touched and no check depends on it."""
    if not os.environ.get("GVP_CALLTRACE"):
        return None
    from . import repo
    seen = set()
    root = os.path.realpath(repo.REPO) + os.sep
    if os.environ.get("GVP_CALLTRACE_LINES") and hasattr(sys, "monitoring"):
        # line coverage through sys.monitoring (3.12+): every location reports once and is then switched off, so the cost is small
        mon = sys.monitoring
        tool = mon.COVERAGE_ID
        try:
            mon.use_tool_id(tool, "gvp")
        except ValueError:
            pass

        def on_line(code, line):
            fn = code.co_filename
            if fn.startswith(root):
                seen.add("%s:%s:%d" % (fn[len(root):], "#line", line))
            return mon.DISABLE
        mon.register_callback(tool, mon.events.LINE, on_line)
        mon.set_events(tool, mon.events.LINE)
        return seen

    def prof(frame, event, arg):
        if event == "call":
            co = frame.f_code
            fn = co.co_filename
            if fn.startswith(root):
                seen.add("%s:%s:%d" % (fn[len(root):], co.co_name, co.co_firstlineno))
    sys.setprofile(prof)
    return seen


def _worker(task):
    res = _worker1(task)
    if _TRACE[0] is not None:
        sys.setprofile(None)
        res["called"] = sorted(_TRACE[0])
    return res


_TRACE = [None]


def _worker1(task):
    prop, name, tier, n, seed, shard, nshards, active = task
    t0 = time.time()
    _TRACE[0] = _calltrace_start()
    try:
        module = _load(prop)
        sc = _subcheck(module, name)
        core.take_metrics()      # drop anything inherited from the parent (corpus replay) through fork
        matchers = [sc.matchers[m] for m in active if m in sc.matchers]
        cwd = os.getcwd()
        import tempfile
        with tempfile.TemporaryDirectory(prefix="gvp_") as td:
            os.chdir(td)
            try:
                if sc.setup is not None:
                    sc.setup()
                if getattr(sc, "custom", None) is not None:
                    stats, failures, harness = sc.custom(sc, n, seed, tier)
                elif sc.enumerate is not None:
                    stats, failures, harness = _run_enumeration(sc, tier, seed, shard, nshards, matchers)
                else:
                    stats, failures, harness = _run_hypothesis(sc, n, seed, matchers, fresh_k=(shard if "@" in name else None))
            finally:
                os.chdir(cwd)
        return {"subcheck": name, "shard": shard, "stats": stats.as_dict(), "failures": failures,
                "harness": harness, "wall": time.time() - t0}
    except BaseException as e:  # noqa
        return {"subcheck": name, "shard": shard, "stats": Stats().as_dict(), "failures": [],
                "harness": "worker crashed: " + "".join(traceback.format_exception(type(e), e, e.__traceback__)),
                "wall": time.time() - t0}


# ------------------------------------------------------------------------------------------------ known findings

def load_known(prop):
    path = os.path.join(HERE, "known_findings.json")
    if not os.path.exists(path):
        return []
    with open(path) as fh:
        data = json.load(fh)
    return [e for e in data.get("open", []) if e.get("property") == prop]


# ------------------------------------------------------------------------------------------------ main

def _write_replay(prop, rec, seed, tier):
    d = os.path.join(HERE, "replays", prop)
    os.makedirs(d, exist_ok=True)
    h = "%016x" % core.case_hash([rec["subcheck"], rec["case"]])
    path = os.path.join(d, "%s-%s.json" % (rec["subcheck"], h))
    out = dict(rec)
    out.update({"property": prop, "seed": seed, "tier": tier})
    with open(path, "w") as fh:
        json.dump(out, fh, indent=1, sort_keys=True)
    return os.path.relpath(path, HERE)


def replay(prop, path):
    with open(path) as fh:
        rec0 = json.load(fh)
    ename = rec0.get("environment")
    if ename and os.environ.get("GVP_ENV_CHILD") != ename:
        # the case failed in another environment: re-create it (same interpreter flags and variables) and replay there
        spec = environments(int(rec0.get("seed", 1))).get(ename)
        if spec is None:
            raise HarnessError("replay file names an unknown environment %r" % ename)
        proc = _spawn_environment(ename, spec, [prop, "--replay", os.path.abspath(path)], {})
        log, _ = proc.communicate()
        sys.stdout.write(log)
        return proc.returncode
    if ename:
        _apply_environment(ename)
    module = _load(prop)
    if hasattr(module, "selftest"):
        module.selftest()
    with open(path) as fh:
        rec = json.load(fh)
    sc = _subcheck(module, rec["subcheck"])
    if sc.setup is not None:
        sc.setup()
    import tempfile
    cwd = os.getcwd()
    with tempfile.TemporaryDirectory(prefix="gvp_") as td:
        os.chdir(td)
        try:
            for h in rec.get("history") or []:
                try:
                    sc.run_case(h)
                except Discard:
                    pass
            try:
                f = sc.run_case(rec["case"])
            except Discard:
                f = None
                print("replay: case is now outside the domain (discarded)")
        finally:
            os.chdir(cwd)
    if f is not None:
        print("replay: %s still fails: %s" % (rec["subcheck"], f.what))
        print("  expected: %s" % json.dumps(jsonable(f.expected)))
        print("  observed: %s" % json.dumps(jsonable(f.observed)))
        print("VIOLATION property=%s replay=%s" % (prop, path))
        return 1
    print("replay: %s holds on this case" % rec["subcheck"])
    return 0


def _replay_phase(args):
    """Known findings and the committed corpus, run in a child process of their own: the process that forks the exploration
    workers never calls the library, so every worker starts from a pristine interpreter state (no call history at all)."""
    prop, only = args
    module = _load(prop)
    if hasattr(module, "selftest"):
        module.selftest()          # oracle self-tests (a mismatch is a harness error, exit 2)
    violations = []          # (replay path, record)
    known_lines = []
    active_by_sub = {}

    # 1. known findings: replay each canonical case; while it still fails, exclude its class by construction
    for e in load_known(prop):
        try:
            sc = _subcheck(module, e["subcheck"])
        except HarnessError:
            continue
        if sc.setup is not None:
            sc.setup()
        try:
            f = sc.run_case(e["canonical_case"])
        except Discard:
            f = None
        if f is not None:
            known_lines.append("KNOWN-FINDING: property=%s %s" % (prop, e["what"]))
            if e.get("matcher"):
                active_by_sub.setdefault(sc.name, []).append(e["matcher"])

    # 2. committed regression corpus
    corpus_n = 0
    for path in sorted(glob.glob(os.path.join(HERE, "corpus", prop, "*.json"))):
        with open(path) as fh:
            rec = json.load(fh)
        try:
            sc = _subcheck(module, rec["subcheck"])
        except HarnessError:
            continue
        if only and sc.name not in only.split(","):
            continue
        if sc.setup is not None:
            sc.setup()
        skip = False
        for m in active_by_sub.get(sc.name, []):
            if m in sc.matchers and sc.matchers[m](rec["case"]):
                skip = True
        if skip:
            continue
        corpus_n += 1
        import tempfile
        cwd0 = os.getcwd()
        with tempfile.TemporaryDirectory(prefix="gvp_") as td:       # checks that write files (C18) must not write into /verif
            os.chdir(td)
            try:
                for h in rec.get("history") or []:
                    try:
                        sc.run_case(h)
                    except Discard:
                        pass
                try:
                    f = sc.run_case(rec["case"])
                except Discard:
                    f = None
            finally:
                os.chdir(cwd0)
        if f is not None:
            r = _fail_record(sc, rec["case"], f)
            r["from_corpus"] = os.path.relpath(path, HERE)
            violations.append((os.path.relpath(path, HERE), r))

    return violations, known_lines, active_by_sub, corpus_n


def run(prop, tier, seed):
    t0 = time.time()
    module = _load(prop)
    subchecks = list(module.SUBCHECKS)
    only = os.environ.get("VERIF_ONLY")
    if only:
        subchecks = [s for s in subchecks if s.name in only.split(",")]
    scale = float(os.environ.get("VERIF_SCALE", "1"))
    envchild = os.environ.get("GVP_ENV_CHILD")
    children = []
    if envchild:
        _apply_environment(envchild)
        scale *= 0.12 if tier == "quick" else 0.04
        _ENUM_LIMIT[0] = getattr(module, "ENV_ENUM_LIMIT", (200, 3000))[0 if tier == "quick" else 1]
        if hasattr(module, "ENV_ONLY"):
            subchecks = [s for s in subchecks if s.name in module.ENV_ONLY]
    elif os.environ.get("VERIF_ENVIRONMENTS", "1") != "0":
        import tempfile
        for ename, spec in environments(seed).items():
            fd, outp = tempfile.mkstemp(prefix="gvp_env_", suffix=".json")
            os.close(fd)
            children.append((ename, spec, outp, _spawn_environment(ename, spec, [prop, tier], {"GVP_ENV_OUT": outp, "VERIF_JOBS": "8"})))

    ctx0 = multiprocessing.get_context("fork")
    with ctx0.Pool(1, maxtasksperchild=1) as pool0:
        violations, known_lines, active_by_sub, corpus_n = pool0.apply(_replay_phase, ((prop, only),))

    # 3. generated / enumerated exploration
    tasks = []
    for sc in subchecks:
        nsh = sc.shards_quick if tier == "quick" else sc.shards_thorough
        total = sc.quick if tier == "quick" else sc.thorough
        total = int(total * scale)
        per = max(1, total // nsh)
        for k in range(nsh):
            # the sub-check's name salts the seed: sub-checks that share a strategy must not draw the same cases
            salt = zlib.crc32(sc.name.encode()) % 1000003
            tasks.append((prop, sc.name, tier, per, (seed * 1000 + k) * 1000003 + salt, k, nsh, active_by_sub.get(sc.name, [])))
        fr = getattr(sc, "fresh", None)
        if fr and sc.strategy is not None and not envchild:
            # additional tiny tasks, each in a process of its own that has made no library call yet: results that depend on what
            # the FIRST call of a process was (lazily initialised module state) are only visible this way
            nfr, per_fr = (fr[0], fr[2]) if tier == "quick" else (fr[1], fr[2])
            nfr = max(1, int(nfr * scale))
            salt = zlib.crc32((sc.name + "@fresh").encode()) % 1000003
            for k in range(nfr):
                tasks.append((prop, sc.name + "@fresh", tier, per_fr, (seed * 1000 + k) * 1000003 + salt, k, nfr,
                              active_by_sub.get(sc.name, [])))
    nproc = int(os.environ.get("VERIF_JOBS", "16"))
    nproc = max(1, min(nproc, len(tasks)))
    ctx = multiprocessing.get_context("fork")
    if nproc == 1:
        results = [_worker(t) for t in tasks]
    else:
        with ctx.Pool(nproc, maxtasksperchild=1) as pool:
            results = pool.map(_worker, tasks, chunksize=1)
    if os.environ.get("GVP_CALLTRACE"):
        called = set()
        for r in results:
            called.update(r.get("called", ()))
        with open(os.environ["GVP_CALLTRACE"], "a") as fh:
            fh.write(json.dumps({"property": prop, "called": sorted(called)}) + "\n")

    per_sub = {}
    harness_errors = []
    for r in results:
        d = per_sub.setdefault(r["subcheck"], {"evaluations": 0, "nontrivial": set(), "classes": {}, "discarded": 0,
                                               "excluded_known": 0, "samples": [], "metrics": {}, "wall": 0.0})
        s = r["stats"]
        d["evaluations"] += s["evaluations"]
        d["nontrivial"] |= s["nontrivial"]
        for k, v in s["classes"].items():
            d["classes"][k] = d["classes"].get(k, 0) + v
        d["discarded"] += s["discarded"]
        d["excluded_known"] += s["excluded_known"]
        if len(d["samples"]) < 8:
            # the 1st, 2nd, 4th, 8th ... case of a shard were kept: Hypothesis starts with the simplest case, so show one early
            # case and the later (typical) ones
            d["samples"].extend(s["samples"][-3:] if r["shard"] else s["samples"][1:2] + s["samples"][-3:])
        for k, v in s["metrics"].items():
            if k not in d["metrics"] or v > d["metrics"][k]:
                d["metrics"][k] = v
        d["wall"] = max(d["wall"], r["wall"])
        if r["harness"]:
            harness_errors.append("%s[%d]: %s" % (r["subcheck"], r["shard"], r["harness"]))
        seen_b = set()
        for frec in r["failures"]:
            key = (frec["subcheck"], frec["bucket"])
            if key in seen_b:
                continue
            seen_b.add(key)
            violations.append((None, frec))

    if envchild:
        # a child of the environment pass: hand everything to the parent, which reports
        out = {"per_sub": {k: dict(v, nontrivial=sorted(v["nontrivial"])) for k, v in per_sub.items()},
               "violations": [rec for _, rec in violations], "harness_errors": harness_errors}
        with open(os.environ["GVP_ENV_OUT"], "w") as fh:
            json.dump(jsonable(out), fh)
        return 0
    for ename, spec, outp, proc in children:
        try:
            log, _ = proc.communicate(timeout=7200)
            with open(outp) as fh:
                res = json.load(fh)
        except Exception as e:  # noqa
            harness_errors.append("environment %s: child produced no result (%s: %s)" % (ename, type(e).__name__, e))
            try:
                proc.kill()
            except Exception:  # noqa
                pass
            continue
        finally:
            try:
                os.unlink(outp)
            except OSError:
                pass
        for k, v in res["per_sub"].items():
            v["nontrivial"] = set(v["nontrivial"])
            mm = {}
            for mk, mv in v.get("metrics", {}).items():
                try:
                    mm[mk] = float(mv)           # (non-finite values travel as strings)
                except (TypeError, ValueError):
                    pass
            v["metrics"] = mm
            per_sub["%s@env:%s" % (k, ename)] = v
        harness_errors.extend("environment %s: %s" % (ename, h) for h in res["harness_errors"])
        for rec in res["violations"]:
            rec["environment"] = ename
            rec["what"] = "%s [in the environment '%s': %s]" % (rec["what"], ename, spec["what"])
            violations.append((None, rec))

    # one VIOLATION per (sub-check, bucket)
    printed = set()
    nviol = 0
    out_lines = []
    for path, rec in violations:
        key = (rec["subcheck"], rec["bucket"])
        if key in printed:
            continue
        printed.add(key)
        if path is None:
            path = _write_replay(prop, rec, seed, tier)
        nviol += 1
        out_lines.append("  %s: %s\n    case: %s\n    expected: %s\n    observed: %s" % (
            rec["subcheck"], rec["what"], json.dumps(rec["case"]), json.dumps(rec["expected"]),
            json.dumps(rec["observed"])))
        out_lines.append("VIOLATION property=%s replay=%s" % (prop, path))

    # evidence
    sc_by_name = {s.name: s for s in subchecks}
    evaluations = sum(d["evaluations"] for d in per_sub.values()) + corpus_n
    distinct = sum(len(d["nontrivial"]) for d in per_sub.values())
    samples = []
    subs = {}
    for name, d in per_sub.items():
        sc = sc_by_name[name.split("@")[0]]
        for smp in d["samples"][:4]:
            samples.append({"subcheck": name, "case": smp})
        subs[name] = {"evaluations": d["evaluations"], "distinct_nontrivial": len(d["nontrivial"]),
                      "rule": sc.rule + (" | @fresh: the same relation in processes that have made no library call before their first case "
                                         "(one short call sequence per process)" if "@fresh" in name else "")
                                      + (" | @env: a slice of the same exploration in a child interpreter started as: "
                                         + environments(seed)[name.split("@env:")[1]]["what"] if "@env:" in name else ""),
                      "classes": dict(sorted(d["classes"].items())), "discarded_outside_domain": d["discarded"],
                      "excluded_known": d["excluded_known"],
                      "exhaustive": bool("@" not in name and sc.exhaustive and (tier == "thorough" or sc.exhaustive == "both")),
                      "worst": {k: float("%.4g" % v) for k, v in sorted(d["metrics"].items())},
                      "wall_s": round(d["wall"], 2)}
    all_exh = bool(subs) and all(v["exhaustive"] for v in subs.values())
    evidence = {
        "property_id": prop, "tier": tier, "seed": seed, "level": "exploration",
        "coverage": {
            "evaluations": evaluations, "distinct_nontrivial": distinct,
            "rule": getattr(module, "RULE", "") + " | distinct = 64-bit hash of the JSON case; per-sub-check rules below",
            "samples": samples, "exhaustive": all_exh, "corpus_replayed": corpus_n, "subchecks": subs,
            "known_findings_active": known_lines, "harness_errors": harness_errors,
        },
        "assumptions": list(getattr(module, "ASSUMPTIONS", [])),
        "wall_s": round(time.time() - t0, 2), "violations": nviol,
    }
    # evidence/ describes runs against /repo itself; runs against another tree (VERIF_REPO: seeded changes, the pinned
    # snapshot) write theirs next to the replays so that they cannot be mistaken for it
    from . import repo as _repo
    evdir = os.path.join(HERE, "evidence") if _repo.REPO == "/repo" else os.path.join(HERE, "replays", "_evidence_other_tree")
    os.makedirs(evdir, exist_ok=True)
    with open(os.path.join(evdir, prop + ".json"), "w") as fh:
        json.dump(evidence, fh, indent=1, sort_keys=True)
        fh.write("\n")

    for ln in known_lines:
        print(ln)
    for ln in out_lines:
        print(ln)
    print("%s %s seed=%d: %d evaluations, %d distinct non-trivial, %d sub-checks, %d violation(s), %.1fs" % (
        prop, tier, seed, evaluations, distinct, len(subs), nviol, time.time() - t0))
    for name, v in subs.items():
        print("   %-28s n=%-8d nt=%-8d disc=%-6d worst=%s" % (name, v["evaluations"], v["distinct_nontrivial"],
                                                             v["discarded_outside_domain"], v["worst"]))
    if harness_errors:
        for h in harness_errors:
            eprint("HARNESS-ERROR " + h)
        if nviol == 0:
            return 2
    return 1 if nviol else 0


def main(argv):
    if len(argv) < 2:
        eprint(__doc__)
        return 2
    prop = argv[0]
    seed = int(os.environ.get("VERIF_SEED", "1") or "1")
    try:
        if argv[1] == "--replay":
            return replay(prop, argv[2])
        tier = argv[1]
        if tier not in ("quick", "thorough"):
            tier = os.environ.get("VERIF_TIER", "quick")
        return run(prop, tier, seed)
    except HarnessError as e:
        eprint("HARNESS-ERROR %s" % e)
        return 2
    except Exception as e:  # noqa
        eprint("HARNESS-ERROR " + "".join(traceback.format_exception(type(e), e, e.__traceback__)))
        return 2


if __name__ == "__main__":
    sys.exit(main(sys.argv[1:]))
