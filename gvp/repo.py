"""Import the code under test from the *current working tree* of $VERIF_REPO (default /repo).

Nothing is cached between runs: every check starts a fresh interpreter and puts the tree first on
sys.path, so an edited source file is what gets executed.  `pandas` is not installed in the sandbox
and geodepy.gnss imports it at module level (it is only used by the dataframe helpers, which no
property mentions), so a stub module is registered before geodepy.gnss is imported.
"""
import importlib
import importlib.util
import os
import sys
import types

REPO = os.path.abspath(os.environ.get("VERIF_REPO", "/repo"))


def setup_path():
    if REPO in sys.path:
        sys.path.remove(REPO)
    sys.path.insert(0, REPO)
    # make sure an installed copy cannot shadow the working tree
    for name in list(sys.modules):
        if name == "geodepy" or name.startswith("geodepy."):
            mod = sys.modules[name]
            f = getattr(mod, "__file__", None) or ""
            if not os.path.abspath(f).startswith(REPO + os.sep):
                del sys.modules[name]


_MODS = {}


def mod(name):
    """Import geodepy.<name> (or top-level module) from the working tree and verify where it came from."""
    m = _MODS.get(name)
    if m is not None:
        return m
    m = _mod(name)
    _MODS[name] = m
    return m


def _mod(name):
    setup_path()
    m = importlib.import_module(name)
    f = os.path.abspath(getattr(m, "__file__", "") or "")
    if not f.startswith(REPO + os.sep):
        raise RuntimeError("harness: %s imported from %s, not from %s" % (name, f, REPO))
    return m


def stub_pandas():
    if "pandas" in sys.modules:
        return
    try:
        import pandas  # noqa: F401
        return
    except Exception:
        pass
    pd = types.ModuleType("pandas")

    class _NA(object):
        def __init__(self, *a, **k):
            raise RuntimeError("pandas stub: dataframe helpers are not exercised by the harness")
    pd.DataFrame = _NA
    pd.Series = _NA
    pd.__stub__ = True
    sys.modules["pandas"] = pd


def gnss():
    import warnings
    stub_pandas()
    with warnings.catch_warnings():
        warnings.simplefilter("ignore", SyntaxWarning)     # gnss.py has an invalid escape sequence in a regular expression
        return mod("geodepy.gnss")


def load_by_path(modname, relpath):
    """Load a script that is not a package member (Standalone/mga2gda.py) by path."""
    setup_path()
    path = os.path.join(REPO, relpath)
    spec = importlib.util.spec_from_file_location(modname, path)
    m = importlib.util.module_from_spec(spec)
    spec.loader.exec_module(m)
    return m


def is_repo_file(filename):
    return os.path.abspath(filename).startswith(REPO + os.sep)
